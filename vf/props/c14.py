"""C14 Interface signatures, flipping and connect() preserve direction and data flow -- bounded-exhaustive enumeration of
signature trees, of interface tuples derived from them, and of single-point corruptions; connect() is observed by
simulating the module. The oracle is vf/ref/c14_tree.py (plain data walk, independent of amaranth.lib.wiring)."""
import hashlib
import itertools
import warnings

from ..core.pool import pmap, rotate, chunks
from ..ref import c14_tree as R

ID = "C14"
LEVEL = "exploration"

DIM_ALTS = {(): [(1,)], (1,): [(), (2,)], (2,): [(1,), (2, 2)], (1, 2): [(2,), (2, 1)], (2, 2): [(2,), (2, 1)]}

_SH = None


# ---------------------------------------------------------------------------------------------- building real objects
def shapes():
    global _SH
    if _SH is None:
        from amaranth.hdl import signed, unsigned
        from amaranth.lib import enum as am_enum, data

        class E(am_enum.Enum, shape=unsigned(2)):
            A = 0
            B = 1
            C = 2
        st = data.StructLayout({"p": 1, "q": signed(2)})
        _SH = {"u0": (unsigned(0), (None, None)), "u1": (1, (None, 1)), "s2": (signed(2), (None, -1)), "r3": (range(3), (None, 2)),
               "en": (E, (None, E.C)), "st": (st, (None, {"p": 1, "q": -1}))}
    return _SH


_SIGS = {}


def build_sig(tree):
    """Signature objects are immutable, so one object per distinct description is shared inside a worker"""
    key = R.canon(tree)
    if key not in _SIGS:
        if len(_SIGS) > 20000:
            _SIGS.clear()
        _SIGS[key] = _build_sig(tree)
    return _SIGS[key]


def _build_sig(tree):
    from amaranth.hdl import signed, unsigned
    from amaranth.lib import wiring as W
    members = {}
    for name, n in tree:
        flow = W.Out if n["f"] == "o" else W.In
        if n["k"] == "p":
            if isinstance(n["s"], str):
                shape, inits = shapes()[n["s"]]
                m = flow(shape, init=inits[n["i"]])
            else:
                kind, w, iv = n["s"]
                m = flow(signed(w) if kind == "s" else unsigned(w), init=iv)
        else:
            m = flow(_build_sig(n["t"]))
        if n["d"]:
            m = m.array(*n["d"])
        members[name] = m
    return W.Signature(members)


class _Bag:
    """plain attribute container used for the dict returned by SignatureMembers.create()"""
    def __init__(self, signature, attrs):
        self.__dict__.update(attrs)
        self.signature = signature


def from_signature(S, how, tag):
    """an interface object built DIRECTLY from the signature object S (plain or flipped) along route `how`"""
    from amaranth.lib import wiring as W
    if how == "create":
        return S.create(path=(tag,))
    if how == "pure":
        return W.PureInterface(S, path=(tag,))
    if how == "comp":
        class Comp(W.Component):
            def __init__(self):
                super().__init__(S)
        return Comp()
    if how == "annot":
        return type("AnnotComp", (W.Component,), {"__annotations__": {name: S.members[name] for name in S.members}})()
    if how == "mcreate":
        return _Bag(S, S.members.create(path=(tag,)))
    raise ValueError(how)


U_ROUTES = ["plain", "pure", "comp", "annot", "mcreate"]                                  # objects made from sig
F_ROUTES = ["flip", "flipped", "flip:pure", "flip:comp", "flip:annot", "flip:mcreate"]      # ... from sig.flip()


def realize(tree, mode, tag):
    """an interface object whose effective description is `tree`. plain/pure/comp/annot/mcreate build it from
    Signature(tree); flip, flip:* build it from Signature(flip_top(tree)).flip() (a FlippedSignature with the same
    effective description); flipped wraps an object of the opposite description"""
    from amaranth.lib import wiring as W
    if mode == "plain":
        return build_sig(tree).create(path=(tag,))
    if mode == "flip":
        return build_sig(R.flip_top(tree)).flip().create(path=(tag,))
    if mode == "flipped":
        return W.flipped(build_sig(R.flip_top(tree)).create(path=(tag,)))
    if mode.startswith("flip:"):
        return from_signature(build_sig(R.flip_top(tree)).flip(), mode[5:], tag)
    return from_signature(build_sig(tree), mode, tag)


def walk(obj, path):
    for item in path:
        obj = obj[item] if isinstance(item, int) else getattr(obj, item)
    return obj


def put(obj, path, new):
    parent = walk(obj, path[:-1])
    if isinstance(path[-1], int):
        parent[path[-1]] = new
    else:
        setattr(parent, path[-1], new)


def mask(v, w):
    return v & ((1 << w) - 1)


def to_shape(v, w, sg):
    v = mask(v, w)
    if sg and w and v >> (w - 1):
        v -= 1 << w
    return v


class Out_:
    def __init__(self):
        self.cov = {}
        self.violations = []
        self.samples = []

    def add(self, k, n=1):
        self.cov[k] = self.cov.get(k, 0) + n

    def viol(self, sig, what, tree, part):
        self.violations.append({"sig": sig, "what": what, "payload": {"tree": tree, "part": part, "sig": sig}})

    def result(self):
        return {"cov": self.cov, "violations": self.violations, "samples": self.samples}


def ename(e):
    return type(e).__name__


# ---------------------------------------------------------------------------------------------- part 1: signatures
def part_sig(tree, out):
    from amaranth.hdl import Value, Signal, Shape
    from amaranth.lib import wiring as W
    c = R.canon(tree)
    out.add("signatures")
    try:
        sig = build_sig(tree)
    except Exception as e:
        out.viol(f"build:{c}:{ename(e)}", f"Signature for {c} cannot be built: {e!r}", tree, "sig")
        return
    # -- flipping twice gives back the original
    try:
        ff = sig.flip().flip()
        fff = sig.flip().flip().flip()
        ok = (ff == sig) and (sig == ff) and list(ff.members.flatten()) == list(sig.members.flatten()) \
            and fff == sig.flip() and list(fff.members.flatten()) == list(sig.flip().members.flatten()) \
            and sig.members.flip().flip() == sig.members \
            and all(m.flip().flip() == m for _p, m in sig.members.flatten()) \
            and all(m.flip().flip() == m for _p, m in sig.flip().members.flatten())
        if tree:
            ok = ok and not (sig.flip() == sig) and not (sig == sig.flip())
        out.add("evaluations")
        if not ok:
            out.viol(f"flipflip:{c}", f"flip().flip() of {c} is not the original (or one flip compares equal)", tree, "sig")
    except Exception as e:
        out.viol(f"flipflip:{c}:{ename(e)}", f"flip().flip() of {c} raised {e!r}", tree, "sig")
    # -- member-level flatten: every member once with its effective flow
    for fl in (False, True):
        tag = "flip" if fl else "id"
        try:
            s = sig.flip() if fl else sig
            got = sorted((p, "o" if m.flow == W.Out else "i", "p" if m.is_port else "s", tuple(m.dimensions))
                         for p, m in s.members.flatten())
            want = sorted(R.nodes(tree, fl))
            out.add("evaluations")
            if got != want:
                out.viol(f"members.flatten:{tag}:{c}", f"members.flatten of {c} ({tag}) = {got}, expected {want}", tree, "sig")
        except Exception as e:
            out.viol(f"members.flatten:{tag}:{c}:{ename(e)}", f"members.flatten of {c} ({tag}) raised {e!r}", tree, "sig")
    # -- created interfaces comply; Signature.flatten visits every leaf once with its effective direction
    routes = [("create", False, lambda: (sig, sig.create(path=("t",)))),
              ("flip.create", True, lambda: (sig.flip(), sig.flip().create(path=("t",)))),
              ("flipped(create)", True, lambda: (sig.flip(), W.flipped(sig.create(path=("t",))))),
              ("flipped(flip.create)", False, lambda: (sig, W.flipped(sig.flip().create(path=("t",)))))]
    for how in ("pure", "comp", "annot", "mcreate"):
        if how == "annot" and not tree:
            continue        # a component class needs at least one annotated member
        routes.append((how, False, lambda how=how: (sig, from_signature(sig, how, "t"))))
        routes.append(("flip:" + how, True, lambda how=how: (sig.flip(), from_signature(sig.flip(), how, "t"))))
    for tag, fl, mk in routes:
        out.add("evaluations")
        want = R.leaves(tree, fl)
        try:
            s, obj = mk()
            step = "is_compliant"
            if s.is_compliant(obj) is not True:
                reasons = []
                s.is_compliant(obj, reasons=reasons)
                out.viol(f"{tag}:{c}:not-compliant", f"{tag} of {c} does not comply with its signature: {reasons}", tree, "sig")
            if not (obj.signature == s) or not (s == obj.signature):
                out.viol(f"{tag}:{c}:signature-attr", f"{tag} of {c}: obj.signature != signature", tree, "sig")
            out.add("objects_created")
            # every nested sub-interface carries the (flipped or not) sub-signature the reference tree says
            step = "nested-signature"
            badsub = check_nested(obj, tree, fl, out)
            if badsub:
                out.viol(f"{tag}:{c}:nested-signature", f"{tag} of {c}: sub-interface signatures differ from the description: "
                         f"{badsub[:3]}", tree, "sig")
            # independent walk of the object
            step = "walk"
            seen = set()
            bad = []
            for p, d, w, sg, iv in want:
                v = Value.cast(walk(obj, p))
                if not isinstance(v, Signal) or len(v) != w or v.shape().signed != sg or mask(v.init, w) != mask(iv, w):
                    bad.append((p, repr(v)))
                seen.add(id(v))
            if len(seen) != len(want):
                bad.append("leaf signals are shared between paths")
            for np_, _f, _k, dims in R.nodes(tree, fl):
                if dims:
                    bad += check_lens(obj, tree, np_)
            if bad:
                out.viol(f"{tag}:{c}:object", f"{tag} of {c}: created object differs from the description at {bad}", tree, "sig")
            step = "flatten"
            flat = list(s.flatten(obj))
            got = {}
            dup = []
            for p, m, v in flat:
                if p in got:
                    dup.append(p)
                sh = Shape.cast(m.shape)
                got[p] = ("o" if m.flow == W.Out else "i", sh.width, sh.signed, id(Value.cast(v)))
            exp = {p: (d, w, sg, id(Value.cast(walk(obj, p)))) for p, d, w, sg, iv in want}
            out.add("leaves_flattened", len(want))
            if dup or got != exp:
                diff = sorted(set(got.items()) ^ set(exp.items()), key=repr)[:4]
                out.viol(f"flatten:{tag}:{c}", f"Signature.flatten on {tag} of {c}: duplicates {dup}, differing entries "
                         f"(path, (dir, width, signed, id)) {diff}", tree, "sig")
        except Exception as e:
            out.viol(f"{tag}:{c}:{step}:{ename(e)}", f"{tag} of {c}: {step} raised {e!r}", tree, "sig")


def check_nested(obj, tree, flipped, out, prefix=()):
    """for every signature member (every index): obj.<path>.signature must describe exactly the sub-tree with its
    effective orientation -- compared structurally against the oracle (members.flatten vs R.nodes) and with =="""
    from amaranth.lib import wiring as W
    bad = []
    for name, n in tree:
        if n["k"] != "s":
            continue
        ef = flipped ^ (n["f"] == "i")
        for idx in R.indices(n["d"]):
            p = (*prefix, name, *idx)
            sub = walk(obj, (name, *idx))
            out.add("nested_signature_checks")
            ssig = sub.signature
            got = sorted((q, "o" if m.flow == W.Out else "i", "p" if m.is_port else "s", tuple(m.dimensions))
                         for q, m in ssig.members.flatten())
            want = sorted(R.nodes(n["t"], ef))
            ref = build_sig(n["t"]).flip() if ef else build_sig(n["t"])
            if got != want or not (ssig == ref) or not (ref == ssig):
                bad.append((p, "effective orientation " + ("flipped" if ef else "as declared"), got, want))
            bad += check_nested(sub, n["t"], ef, out, p)
    return bad


def check_lens(obj, tree, npath):
    """lengths of the (nested) lists of the member at name path npath, for every index combination above it"""
    bad = []

    def go(o, t, rest, sofar):
        name = rest[0]
        n = R.get_node(t, (name,))
        val = getattr(o, name)

        def dims(v, d, pp):
            if not d:
                if len(rest) > 1:
                    go(v, n["t"], rest[1:], pp)
                return
            if len(rest) == 1:
                if not isinstance(v, (list, tuple)) or len(v) != d[0]:
                    bad.append((pp, "length"))
                    return
            for i in range(d[0]):
                dims(v[i], d[1:], (*pp, i))
        dims(val, list(n["d"]), (*sofar, name))
    go(obj, tree, list(npath), ())
    return bad


# ---------------------------------------------------------------------------------------------- part 2: connect
def derive(tree, k, pattern):
    """k effective descriptions with exactly one output per leaf -- except in the `idle-*` patterns, where every second
    port member (odd / even ordinals) is an input on ALL interfaces (no output at all) and the others have one output"""
    if pattern.startswith("idle"):
        ports = list(R.port_dirs(tree))
        par = 1 if pattern == "idle-odd" else 0
        driven = [p for i, p in enumerate(ports) if i % 2 != par]
        owner = {p: n % k for n, p in enumerate(driven)}
        xs = []
        for j in range(k):
            base = R.reorder(R.subflip(tree)) if j % 2 else tree
            xs.append(R.orient(base, lambda p, j=j: "o" if owner.get(p) == j else "i"))
        return xs
    if pattern == "self":
        xs = [tree, R.flip_top(tree)]
        if k >= 3:
            xs.append(R.orient(tree, lambda p: "i"))
        if k >= 4:
            xs.append(R.orient(R.reorder(R.subflip(tree)), lambda p: "i"))
        return xs
    ports = list(R.port_dirs(tree))
    owner = {p: i % k for i, p in enumerate(ports)}
    xs = []
    for j in range(k):
        # odd interfaces: signature members declared with the opposite flow and all members declared in the opposite order
        base = R.reorder(R.subflip(tree)) if j % 2 else tree
        xs.append(R.orient(base, lambda p, j=j: "o" if owner[p] == j else "i"))
    return xs


VARIATIONS = {
    # name: (k, pattern, modes, const pattern)
    "k2:T+T.flip": (2, "self", ("plain", "flip"), None),
    "k2:T+flipped(T)": (2, "self", ("plain", "flipped"), None),
    "k3:rr": (3, "rr", ("plain", "flip", "flipped"), None),
    "k3:T+T.flip+allin": (3, "self", ("flipped", "plain", "plain"), None),
    "k2:T+T.flip:const": (2, "self", ("plain", "flip"), 0),
    "k3:rr:const": (3, "rr", ("flip", "plain", "plain"), 1),
    "k2:rr": (2, "rr", ("plain", "plain"), None),
    "k3:rr:b": (3, "rr", ("flip", "plain", "flip"), None),
    # leaves that are inputs on every interface (nothing to connect for them, but width / init must still agree)
    "k2:idle-odd": (2, "idle-odd", ("plain", "flip"), None),
    "k3:idle-even": (3, "idle-even", ("flipped", "plain", "flip"), None),
    "k2:idle-even": (2, "idle-even", ("plain", "plain"), None),
}
QUICK_VARS = ["k2:T+T.flip", "k2:T+flipped(T)", "k3:rr", "k2:T+T.flip:const", "k2:rr", "k2:idle-odd", "k3:idle-even"]
IDLE_MIN_PORTS = 2       # an idle-* tuple needs one driven and one all-input port member


class Tuple_:
    """k realized interfaces + oracle view of them"""
    def __init__(self, xs, modes, allow_idle=False, ifaces=None):
        self.xs = xs
        self.k = len(xs)
        self.ifaces = ifaces if ifaces is not None else [realize(x, modes[j], f"i{j}") for j, x in enumerate(xs)]
        self.lv = [{l[0]: l for l in R.leaves(x)} for x in xs]
        self.paths = [l[0] for l in R.leaves(xs[0])]
        self.info = {p: l[2:] for p, l in self.lv[0].items()}       # path -> (w, signed, init)
        self.owner = {}
        for p in self.paths:
            assert all(set(lv) == set(self.paths) for lv in self.lv), "harness: bad tuple"
            outs = [j for j in range(self.k) if self.lv[j][p][1] == "o"]
            assert len(outs) == 1 or (allow_idle and not outs), "harness: bad tuple"
            self.owner[p] = outs[0] if outs else None         # None: input on every interface
        self.idle = [p for p in self.paths if self.owner[p] is None]
        assert not allow_idle or (self.idle and len(self.idle) < len(self.paths)), "harness: idle tuple without both kinds"

    def leaf_values(self):
        from amaranth.hdl import Value
        return [{p: Value.cast(walk(self.ifaces[j], p)) for p in self.paths} for j in range(self.k)]


def stmt_map(m, idmap):
    """input->output map of the statements added to module m: set of (lhs leaf, rhs leaves/const)"""
    from amaranth.hdl import Fragment, Const
    from amaranth.hdl._ast import Assign
    with warnings.catch_warnings():
        warnings.simplefilter("ignore")
        frag = Fragment.get(m, None)
    pairs = set()
    n = 0
    for domain, stmts in frag.statements.items():
        for st in stmts:
            n += 1
            if domain != "comb" or not isinstance(st, Assign):
                pairs.add(("non-comb-or-non-assign", domain))
                continue
            lhs = tuple(sorted((idmap.get(id(s), ("foreign", s.name)) for s in st._lhs_signals()), key=repr))
            rhs_sigs = tuple(sorted((idmap.get(id(s), ("foreign", s.name)) for s in st.rhs._rhs_signals()), key=repr))
            if not rhs_sigs and isinstance(st.rhs, Const):
                rhs_sigs = (("const", mask(st.rhs.value, len(st.rhs))),)
            pairs.add((lhs, rhs_sigs))
    return frag, pairs, n


def n_statements(m):
    from amaranth.hdl import Fragment
    with warnings.catch_warnings():
        warnings.simplefilter("ignore")
        frag = Fragment.get(m, None)
    return sum(len(s) for s in frag.statements.values()) + len(frag.subfragments)


def apply_consts(tp, cpat):
    """replace leaves by constants: leaf ordinals = cpat (mod 2) get a constant output; those = cpat (mod 4) also a
    constant (same value) on the first input. Returns {(j, path): value}"""
    from amaranth.hdl import Const, Shape
    consts = {}
    for i, p in enumerate(tp.paths):
        if i % 2 != cpat % 2:
            continue
        w, sg, iv = tp.info[p]
        v = to_shape(iv + 1 + i, w, sg)
        o = tp.owner[p]
        put(tp.ifaces[o], p, Const(v, Shape(w, sg)))
        consts[(o, p)] = mask(v, w)
        if i % 4 == cpat:
            j = [x for x in range(tp.k) if x != o][0]
            put(tp.ifaces[j], p, Const(v, Shape(w, sg)))
            consts[(j, p)] = mask(v, w)
    return consts


def expected_map(tp, consts):
    want = set()
    for p in tp.paths:
        o = tp.owner[p]
        if o is None:
            continue          # no output anywhere: no connection at all is made for this leaf
        for j in range(tp.k):
            if j == o or (j, p) in consts:
                continue
            rhs = (("const", consts[(o, p)]),) if (o, p) in consts else ((o, p),)
            want.add((((j, p),), rhs))
    return want


def simulate(frag, tp, vals, consts, out):
    """drive every output leaf with every value of its shape; every input leaf of the same path must follow, every
    other input leaf must keep the value of its own output"""
    from amaranth.sim import Simulator
    errs = []
    cnt = [0, 0]

    def expect_idle(p):
        o = tp.owner[p]
        return consts[(o, p)] if (o, p) in consts else mask(tp.info[p][2], tp.info[p][0])

    async def tb(ctx):
        ins = {p: [(j, vals[j][p]) for j in range(tp.k) if j != tp.owner[p]] for p in tp.paths}
        for p in tp.paths:
            w = tp.info[p][0]
            for j, s in ins[p]:
                got = mask(ctx.get(s), w)
                cnt[1] += 1
                if got != expect_idle(p):
                    errs.append(f"input i{j}{list(p)} = {got} at rest, its output holds {expect_idle(p)}")
        for p in tp.paths:
            o = tp.owner[p]
            if o is None or (o, p) in consts:
                continue
            w, sg, iv = tp.info[p]
            osig = vals[o][p]
            others_checked = False
            for v in range(1 << w):
                ctx.set(osig, to_shape(v, w, sg))
                for j, s in ins[p]:
                    got = mask(ctx.get(s), w)
                    cnt[0] += 1
                    if got != v:
                        errs.append(f"output i{o}{list(p)} driven to {v}, input i{j}{list(p)} reads {got}")
                if v != mask(iv, w) and not others_checked:
                    others_checked = True
                    for q in tp.paths:
                        if q == p:
                            continue
                        for j, s in ins[q]:
                            got = mask(ctx.get(s), tp.info[q][0])
                            cnt[1] += 1
                            if got != expect_idle(q):
                                errs.append(f"output i{o}{list(p)} driven to {v} disturbed input i{j}{list(q)}: {got}")
            ctx.set(osig, to_shape(iv, w, sg))
    sim = Simulator(frag)
    sim.add_testbench(tb)
    with warnings.catch_warnings():
        warnings.simplefilter("ignore")
        sim.run()
    out.add("leaf_follow_checks", cnt[0])
    out.add("leaf_idle_checks", cnt[1])
    return errs


def part_connect(tree, out, variations, all_perm_sims=False):
    from amaranth.hdl import Module
    from amaranth.lib import wiring as W
    c = R.canon(tree)
    if not R.leaves(tree):
        out.add("connect_skipped_no_leaf")
        return
    for vname in variations:
        k, pattern, modes, cpat = VARIATIONS[vname]
        if pattern == "rr" and len(R.port_dirs(tree)) < 1:
            continue
        idle = pattern.startswith("idle")
        if idle and len(R.port_dirs(tree)) < IDLE_MIN_PORTS:
            out.add("idle_tuples_skipped_single_port")
            continue
        out.add("evaluations")
        out.add("tuples")
        step = "create"
        try:
            tp = Tuple_(derive(tree, k, pattern), modes, allow_idle=idle)
            if idle:
                out.add("idle_tuples")
                out.add("idle_leaves", len(tp.idle))
            consts = apply_consts(tp, cpat) if cpat is not None else {}
            out.add("constant_leaves", len(consts))
            vals = tp.leaf_values()
            idmap = {id(vals[j][p]): (j, p) for j in range(tp.k) for p in tp.paths if (j, p) not in consts}
            want = expected_map(tp, consts)
            step = "connect"
            m = Module()
            W.connect(m, *tp.ifaces)
            out.add("connect_accepted")
            step = "map"
            frag, got, _n = stmt_map(m, idmap)
            if got != want:
                diff = sorted(got ^ want, key=repr)[:4]
                out.viol(f"connect:{vname}:{c}:map", f"connect of {vname} over {c}: statements (input <- output) differ from "
                         f"one-assignment-per-input-leaf from its single output; outputs/constants must never be driven. "
                         f"symmetric difference: {diff}", tree, "connect")
            step = "simulate"
            errs = simulate(frag, tp, vals, consts, out)
            out.add("simulations")
            if errs:
                out.viol(f"connect:{vname}:{c}:flow", f"connect of {vname} over {c}: {errs[:3]}", tree, "connect")
            # -- argument order
            step = "permute"
            orders = [o for o in itertools.permutations(range(tp.k)) if o != tuple(range(tp.k))]
            for order in orders + ["kw"]:
                m2 = Module()
                if order == "kw":
                    W.connect(m2, **{f"n{tp.k - j}": tp.ifaces[j] for j in range(tp.k)})
                else:
                    W.connect(m2, *[tp.ifaces[j] for j in order])
                frag2, got2, _n = stmt_map(m2, idmap)
                out.add("permutations")
                out.add("evaluations")
                if got2 != want:
                    out.viol(f"connect:{vname}:{c}:order{order}", f"connect of {vname} over {c} with argument order {order} "
                             f"gives a different input<-output map: {sorted(got2 ^ want, key=repr)[:4]}", tree, "connect")
                elif (all_perm_sims and tp.k == 2) or order == orders[-1]:
                    errs = simulate(frag2, tp, vals, consts, out)
                    out.add("simulations")
                    if errs:
                        out.viol(f"connect:{vname}:{c}:order{order}:flow", f"{errs[:3]}", tree, "connect")
        except Exception as e:
            out.viol(f"connect:{vname}:{c}:{step}:{ename(e)}", f"connect of {vname} over {c}: {step} raised {e!r}", tree, "connect")


CM_MODES = {3: ("plain", "flip", "flipped"), 4: ("flip", "plain", "flipped", "pure")}


def part_constmix(tree, out, ks=(3, 4), all_leaves=False, sims=True):
    """connect() of 3 and 4 interfaces (per leaf: one output side, 2..3 input sides) in EVERY argument order, where one
    leaf element at a time holds constants in every combination: output Signal|Const(v); each input Signal | Const(v)
    (matching) | Const(v') (mismatching). Oracle from the documentation of connect(): a constant input requires a
    constant output of the same value (else ConnectionError, nothing added); a matching constant input is not
    assigned; every signal input is assigned the single output (signal or constant); nothing depends on the order."""
    from amaranth.hdl import Module, Const, Shape, Value
    from amaranth.lib import wiring as W
    c = R.canon(tree)
    if not R.leaves(tree):
        return
    for k in ks:
        tag = f"constmix:k{k}"
        try:
            tp = Tuple_(derive(tree, k, "self"), CM_MODES[k])
            vals0 = tp.leaf_values()
        except Exception as e:
            out.viol(f"{tag}:{c}:create:{ename(e)}", f"{tag} over {c}: creating the interfaces raised {e!r}", tree, "constmix")
            continue
        sel = list(tp.paths) if all_leaves else list(dict.fromkeys([tp.paths[0], tp.paths[-1]]))
        orders = list(itertools.permutations(range(k)))
        for p in sel:
            o = tp.owner[p]
            ins = [j for j in range(k) if j != o]
            w, sg, iv = tp.info[p]
            v, mm = to_shape(iv + 1, w, sg), to_shape(iv + 2, w, sg)
            originals = {j: walk(tp.ifaces[j], p) for j in range(k)}
            for okind in "SC":
                for ikinds in itertools.product("SCM", repeat=k - 1):
                    combo = "o" + okind + "," + ",".join("i%d%s" % (j, kd) for j, kd in zip(ins, ikinds))
                    where = ".".join(str(x) for x in p)
                    out.add("evaluations")
                    out.add("constmix_cases")
                    consts = {}
                    try:
                        if okind == "C":
                            put(tp.ifaces[o], p, Const(v, Shape(w, sg)))
                            consts[(o, p)] = mask(v, w)
                        for j, kd in zip(ins, ikinds):
                            if kd != "S":
                                val = v if kd == "C" else mm
                                put(tp.ifaces[j], p, Const(val, Shape(w, sg)))
                                consts[(j, p)] = mask(val, w)
                        error = any(kd != "S" for kd in ikinds) and (okind == "S" or "M" in ikinds)
                        vals = [dict(d) for d in vals0]
                        for j in range(k):
                            vals[j][p] = Value.cast(walk(tp.ifaces[j], p))
                        idmap = {id(vals[j][q]): (j, q) for j in range(k) for q in tp.paths if (j, q) not in consts}
                        want = None if error else expected_map(tp, consts)
                        out.add("constmix_expect_error" if error else "constmix_expect_accept")
                        if not error and "C" in ikinds and "S" in ikinds:
                            out.add("constmix_signal_input_beside_constant_input")
                        bad = None
                        frags = {}
                        for order in orders:
                            m = Module()
                            out.add("constmix_connects")
                            try:
                                W.connect(m, *[tp.ifaces[j] for j in order])
                                res = "no-error"
                            except Exception as e:
                                res = ename(e)
                            if error:
                                if res != "ConnectionError":
                                    bad = (order, f"expected ConnectionError, got {res}")
                                elif n_statements(m):
                                    bad = (order, "ConnectionError raised but statements were added")
                            else:
                                if res != "no-error":
                                    bad = (order, f"expected the connection to be made, got {res}")
                                else:
                                    frag, got, _n = stmt_map(m, idmap)
                                    frags[order] = frag
                                    if got != want:
                                        bad = (order, f"input<-output assignments differ from the oracle: "
                                                      f"{sorted(got ^ want, key=repr)[:4]}")
                            if bad:
                                break
                        if not bad and not error and sims:
                            for order in (orders[0], orders[-1]):
                                errs = simulate(frags[order], tp, vals, consts, out)
                                out.add("simulations")
                                if errs:
                                    bad = (order, f"simulation: {errs[:3]}")
                                    break
                        if bad:
                            out.viol(f"{tag}:{c}:{where}:{combo}:order{''.join(map(str, bad[0]))}",
                                     f"{tag} over {c} (interfaces i0..i{k - 1} = T, T.flip, all-input...), leaf {where} holding "
                                     f"{combo} (S signal, C constant {v}, M constant {mm}), argument order {bad[0]}: {bad[1]}",
                                     tree, "constmix")
                    except Exception as e:
                        out.viol(f"{tag}:{c}:{where}:{combo}:harness:{ename(e)}", f"{tag} over {c}: {e!r}", tree, "constmix")
                    finally:
                        for j in range(k):
                            put(tp.ifaces[j], p, originals[j])


def constmix_family(quick):
    """small signatures for the constant-combination product (the logic under test is per leaf element)"""
    d = D2 if quick else [(), (2,), (1, 2)]
    levels = [dict(pd=d, sd=D2, maxm=2, max_sub=1, pair_pd=[()]), dict(pd=D2, sd=[], maxm=1)]
    return R.structural_family(levels)


def part_routes(tree, out, n_sims=2):
    """an object made from sig by every route, connected with an object made from sig.flip() by every route"""
    from amaranth.hdl import Module
    from amaranth.lib import wiring as W
    c = R.canon(tree)
    if not R.leaves(tree):
        return
    xs = derive(tree, 2, "self")
    pairs = [(u, f) for u in U_ROUTES for f in F_ROUTES]
    sim_pairs = {("pure", "flip:pure"), ("comp", "flip:mcreate"), ("mcreate", "flip:comp"), ("annot", "flip:annot"),
                 ("plain", "flip:pure"), ("pure", "flipped")}
    sim_pairs = set(sorted(sim_pairs)[:n_sims]) if n_sims < len(sim_pairs) else sim_pairs
    objs = {}
    for j, routes in ((0, U_ROUTES), (1, F_ROUTES)):
        for r in routes:
            try:
                objs[r] = realize(xs[j], r, f"i{j}")
            except Exception as e:
                out.viol(f"connect:routes:{r}:{c}:create:{ename(e)}", f"creating an object of {c} by route {r} raised {e!r}",
                         tree, "routes")
    for u, f in pairs:
        if u not in objs or f not in objs:
            continue
        vname = f"routes:{u}+{f}"
        out.add("evaluations")
        out.add("route_pairs")
        step = "oracle"
        try:
            tp = Tuple_(xs, (u, f), ifaces=[objs[u], objs[f]])
            vals = tp.leaf_values()
            idmap = {id(vals[j][p]): (j, p) for j in range(2) for p in tp.paths}
            want = expected_map(tp, {})
            step = "connect"
            for order in ((0, 1), (1, 0)) if (u, f) in sim_pairs else ((0, 1),):
                m = Module()
                W.connect(m, *[tp.ifaces[j] for j in order])
                frag, got, _n = stmt_map(m, idmap)
                if got != want:
                    out.viol(f"connect:{vname}:{c}:order{order}:map", f"connect of objects created by {u} (from sig) and {f} "
                             f"(from sig.flip()) over {c}: input<-output map differs: {sorted(got ^ want, key=repr)[:4]}",
                             tree, "routes")
            out.add("connect_accepted")
            if (u, f) in sim_pairs:
                step = "simulate"
                errs = simulate(frag, tp, vals, {}, out)
                out.add("simulations")
                if errs:
                    out.viol(f"connect:{vname}:{c}:flow", f"connect of {vname} over {c}: {errs[:3]}", tree, "routes")
        except Exception as e:
            out.viol(f"connect:{vname}:{c}:{step}:{ename(e)}", f"connect of objects created by {u} (from sig) and {f} (from "
                     f"sig.flip()) over {c}: {step} raised {e!r}", tree, "routes")


# ---------------------------------------------------------------------------------------------- part 3: corruptions
def corruptions(tp_xs, only_idle=False):
    """all single-point corruptions of the tuple of descriptions xs: (kind, j, where, tree-edit or object-edit).
    only_idle: just the width / init corruptions (`idle-width`, `idle-init`, `idle-obj-width`, `idle-obj-init`) of the
    port members that are inputs on every interface -- connect() makes no connection for them but must still reject
    a width or initial-value mismatch. (A second output, a constant or a port dimension change on such a leaf is not
    an error named by the statement, so none is demanded.)"""
    out = []
    k = len(tp_xs)
    driven = set()
    for x in tp_xs:
        driven |= {p for p, d in R.port_dirs(x).items() if d == "o"}
    pre = "idle-" if only_idle else ""
    for j, x in enumerate(tp_xs):
        dirs = R.port_dirs(x)
        for np_ in R.node_paths(x):
            n = R.get_node(x, np_)
            if only_idle and (n["k"] != "p" or np_ in driven):
                continue
            if not only_idle:
                out.append(("missing", j, np_, None, ("tree", R.edit(x, np_, lambda n: None))))
                for alt in DIM_ALTS[tuple(n["d"])]:
                    out.append(("dims", j, np_, list(alt), ("tree", R.edit(x, np_, lambda n, alt=alt: dict(n, d=list(alt))))))
            if n["k"] != "p":
                continue
            w, sg, iv = R.shape_info(n["s"], n["i"])
            out.append((pre + "width", j, np_, None,
                        ("tree", R.edit(x, np_, lambda n: dict(n, s=["s" if sg else "u", w + 1, iv], i=0)))))
            out.append((pre + "init", j, np_, None, ("tree", R.edit(x, np_, lambda n: dict(n, i=1 - n["i"])))))
            if dirs[np_] == "i" and np_ in driven:
                out.append(("second-output", j, np_, None,
                            ("tree", R.edit(x, np_, lambda n: dict(n, f="i" if n["f"] == "o" else "o")))))
        for p, d, w, sg, iv in R.leaves(x):
            is_driven = R.name_path(p) in driven
            if only_idle and is_driven:
                continue
            out.append((pre + "obj-width", j, p, None, ("obj", ("signal", w + 1, sg, iv))))
            out.append((pre + "obj-init", j, p, None, ("obj", ("signal", w, sg, to_shape(iv + 1, w, sg)))))
            if d == "i" and is_driven:
                out.append(("const-differs", j, p, None, ("obj", ("const2", w, sg, iv))))
                out.append(("const-vs-signal", j, p, None, ("obj", ("const1", w, sg, iv))))
    return out


EXPECT_CONNECTION_ERROR = {"missing", "width", "init", "second-output", "obj-width", "obj-init", "const-differs", "const-vs-signal",
                           "idle-width", "idle-init", "idle-obj-width", "idle-obj-init"}


def run_corruption(xs, modes, cor, base_ifaces):
    """-> (outcome class name or 'no-error', statements left in the module). base_ifaces: the uncorrupted interface
    objects (connect() does not modify them); only the corrupted interface is re-created / patched and restored."""
    from amaranth.hdl import Module, Signal, Const, Shape
    from amaranth.lib import wiring as W
    kind, j, where, _alt, (lvl, arg) = cor
    ifaces = list(base_ifaces)
    undo = []
    if lvl == "tree":
        ifaces[j] = realize(arg, modes[j], f"i{j}")
    else:
        what, w, sg, iv = arg
        undo.append((j, walk(ifaces[j], where)))
        if what == "signal":
            put(ifaces[j], where, Signal(Shape(w, sg), init=iv))
        else:
            put(ifaces[j], where, Const(iv, Shape(w, sg)))
            if what == "const2":
                lv = [{l[0]: l for l in R.leaves(x)} for x in xs]
                o = [i for i in range(len(xs)) if lv[i][where][1] == "o"][0]
                undo.append((o, walk(ifaces[o], where)))
                put(ifaces[o], where, Const(to_shape(iv + 1, w, sg), Shape(w, sg)))
    m = Module()
    try:
        W.connect(m, *ifaces)
        res = "no-error"
    except Exception as e:
        res = ename(e)
    finally:
        for i, oldv in undo:
            put(ifaces[i], where, oldv)
    return res, n_statements(m)


def cor_tag(cor):
    kind, j, where, alt, _ = cor
    w = ".".join(str(x) for x in where)
    return f"{kind}@i{j}.{w}" + (f"->{alt}" if alt is not None else "")


def part_corrupt(tree, out, bases):
    from amaranth.hdl import Module
    from amaranth.lib import wiring as W
    c = R.canon(tree)
    if not R.leaves(tree):
        return
    for vname in bases:
        k, pattern, modes, _ = VARIATIONS[vname]
        idle = pattern.startswith("idle")
        if idle and len(R.port_dirs(tree)) < IDLE_MIN_PORTS:
            continue
        xs = derive(tree, k, pattern)
        try:
            m = Module()
            base_ifaces = [realize(x, modes[i], f"i{i}") for i, x in enumerate(xs)]
            W.connect(m, *base_ifaces)
        except Exception:
            out.add("corruption_bases_skipped_connect_fails")     # reported by part_connect
            continue
        for cor in corruptions(xs, only_idle=idle):
            kind = cor[0]
            out.add("evaluations")
            out.add("corruptions")
            out.add("corrupt_" + kind)
            try:
                res, nst = run_corruption(xs, modes, cor, base_ifaces)
            except Exception as e:
                out.viol(f"corrupt:{vname}:{c}:{cor_tag(cor)}:setup:{ename(e)}", f"building the corrupted tuple raised {e!r}",
                         tree, "corrupt")
                continue
            if res != "no-error":
                out.add("connect_rejected")
            bad = None
            if kind in EXPECT_CONNECTION_ERROR and res != "ConnectionError":
                bad = f"expected ConnectionError, got {res}"
            elif kind == "dims" and res == "no-error" and \
                    [l[0] for l in R.leaves(cor[4][1])] != [l[0] for l in R.leaves(xs[cor[1]])]:
                bad = "a dimension mismatch (different sets of leaf ports) was accepted silently"
            elif nst and res != "no-error":
                bad = f"connect raised {res} but left {nst} statement(s) in the module"
            if bad:
                out.viol(f"corrupt:{vname}:{c}:{cor_tag(cor)}:{res}", f"tuple {vname} over {c}, corruption {cor_tag(cor)}: {bad}",
                         tree, "corrupt")


# ---------------------------------------------------------------------------------------------- part: Signature subclasses
_SUBCLS = None


def subclasses():
    """a trivial Signature subclass (inherits the identity-based __eq__) and one whose create() returns a custom interface"""
    global _SUBCLS
    if _SUBCLS is None:
        from amaranth.lib import wiring as W

        class Sub(W.Signature):
            pass

        class CustomIface(W.PureInterface):
            pass

        class SubCustom(W.Signature):
            def create(self, *, path=None, src_loc_at=0):
                return CustomIface(self, path=path, src_loc_at=1 + src_loc_at)
        _SUBCLS = {"Sub": Sub, "SubCustom": SubCustom}
    return _SUBCLS


def build_sig_sub(tree, kind, reg, path=(), top=True):
    """like _build_sig, but every signature member is an instance of a Signature subclass; reg[name path] = instance"""
    from amaranth.hdl import signed, unsigned
    from amaranth.lib import wiring as W
    members = {}
    for name, n in tree:
        flow = W.Out if n["f"] == "o" else W.In
        if n["k"] == "p":
            shape, inits = shapes()[n["s"]]
            m = flow(shape, init=inits[n["i"]])
        else:
            m = flow(build_sig_sub(n["t"], kind, reg, (*path, name), top=False))
        if n["d"]:
            m = m.array(*n["d"])
        members[name] = m
    if top:
        return W.Signature(members)
    inst = subclasses()[kind](members)
    reg[path] = inst
    return inst


def sub_elements(tree, flipped=False, path=()):
    """every sub-interface element: (object path, name path of its signature member, effectively flipped?)"""
    out = []
    for name, n in tree:
        if n["k"] != "s":
            continue
        ef = flipped ^ (n["f"] == "i")
        for idx in R.indices(n["d"]):
            p = (*path, name, *idx)
            out.append((p, R.name_path(p), ef))
            out.extend(sub_elements(n["t"], ef, p))
    return out


def put_sub(obj, p, new):
    """obj.<p> = new for a sub-interface element; array members are re-assigned as a whole (a flipped parent hands out
    copies of its lists)"""
    k = max(i for i, x in enumerate(p) if isinstance(x, str))
    parent = walk(obj, p[:k])
    idxs = p[k + 1:]
    if not idxs:
        setattr(parent, p[k], new)
        return

    def rebuilt(cur, idxs):
        cur = list(cur)
        cur[idxs[0]] = new if len(idxs) == 1 else rebuilt(cur[idxs[0]], idxs[1:])
        return cur
    setattr(parent, p[k], rebuilt(getattr(parent, p[k]), idxs))


def part_subclass(tree, out, kinds=("Sub", "SubCustom")):
    from amaranth.hdl import Module
    from amaranth.lib import wiring as W
    c = R.canon(tree)
    if not any(n["k"] == "s" for _, n in tree):
        return
    for kind in kinds:
        tag = f"subclass:{kind}"
        out.add("evaluations")
        out.add("subclass_trees")
        step = "build"
        try:
            reg = {}
            sig = build_sig_sub(tree, kind, reg)
            reg2 = {}
            build_sig_sub(tree, kind, reg2)
            # -- identity and equality laws of subclass instances
            step = "laws"
            for np_, s in reg.items():
                out.add("subclass_law_checks")
                f1, f2 = s.flip(), s.flip()
                laws = {"s == s": s == s, "not s != s": not (s != s), "s != s.flip()": s != f1, "not s == s.flip()": not (s == f1),
                        "s.flip() != s": f1 != s, "not s.flip() == s": not (f1 == s), "s.flip() == s.flip()": f1 == f2,
                        "s.flip().flip() is s": f1.flip() is s, "s.flip().flip() == s": f1.flip() == s,
                        "another instance with the same members is a different signature": not (s == reg2[np_]) and
                        not (s.flip() == reg2[np_].flip())}
                broken = [k for k, v in laws.items() if v is not True]
                if broken:
                    out.viol(f"{tag}:{c}:laws:{'.'.join(np_)}", f"{kind} instance used as member {'.'.join(np_)} of {c} violates "
                             f"{broken}", tree, "subclass")
            # -- uncorrupted objects comply and connect as the oracle says
            step = "create"
            objs = [sig.create(path=("i0",)), sig.flip().create(path=("i1",))]
            sigs = [sig, sig.flip()]
            xs = [tree, R.flip_top(tree)]
            for j in range(2):
                reasons = []
                if sigs[j].is_compliant(objs[j], reasons=reasons) is not True:
                    out.viol(f"{tag}:{c}:i{j}:not-compliant", f"object created from {'sig.flip()' if j else 'sig'} of {c} with {kind} "
                             f"members does not comply: {reasons}", tree, "subclass")
                for p, np_, ef in sub_elements(tree, bool(j)):
                    want = reg[np_].flip() if ef else reg[np_]
                    wrong = reg[np_] if ef else reg[np_].flip()
                    got = walk(objs[j], p).signature
                    out.add("subclass_nested_signature_checks")
                    if not (got == want) or (got == wrong):
                        out.viol(f"{tag}:{c}:i{j}:nested-signature:{'.'.join(map(str, p))}", f"sub-interface {p} of the object "
                                 f"created from {'sig.flip()' if j else 'sig'} of {c}: signature {got!r}, expected orientation "
                                 f"{'flipped' if ef else 'as declared'}", tree, "subclass")
            step = "connect"
            tp = Tuple_(xs, ("plain", "flip"), ifaces=objs)
            vals = tp.leaf_values()
            idmap = {id(vals[j][p]): (j, p) for j in range(2) for p in tp.paths}
            want_map = expected_map(tp, {})
            for order in ((0, 1), (1, 0)):
                m = Module()
                W.connect(m, *[objs[j] for j in order])
                frag, got, _n = stmt_map(m, idmap)
                out.add("connect_accepted")
                if got != want_map:
                    out.viol(f"{tag}:{c}:connect:order{order}:map", f"connect over {c} with {kind} members, order {order}: "
                             f"{sorted(got ^ want_map, key=repr)[:4]}", tree, "subclass")
            if tp.paths:
                errs = simulate(frag, tp, vals, {}, out)
                out.add("simulations")
                if errs:
                    out.viol(f"{tag}:{c}:connect:flow", f"connect over {c} with {kind} members: {errs[:3]}", tree, "subclass")
            # -- a sub-interface created with the wrong orientation from the same signature instance
            for j in range(2):
                for p, np_, ef in sub_elements(tree, bool(j)):
                    where = f"i{j}." + ".".join(map(str, p))
                    step = "wrong-orientation " + where
                    out.add("evaluations")
                    out.add("corrupt_wrong-orientation")
                    inst = reg[np_]
                    original = walk(objs[j], p)
                    wrong = (inst if ef else inst.flip()).create(path=("w",))
                    put_sub(objs[j], p, wrong)
                    try:
                        bad = []
                        if walk(objs[j], p).signature == (inst.flip() if ef else inst):
                            bad.append("the replaced sub-interface still reports the right orientation")
                        reasons = []
                        if sigs[j].is_compliant(objs[j], reasons=reasons) is not False:
                            bad.append("is_compliant(reasons=[]) is not False")
                        elif not reasons:
                            bad.append("is_compliant is False but gives no reason")
                        if sigs[j].is_compliant(objs[j]) is not False:
                            bad.append("is_compliant() is not False")
                        for order in ((0, 1), (1, 0)):
                            m = Module()
                            try:
                                W.connect(m, *[objs[i] for i in order])
                                res = "no-error"
                            except Exception as e:
                                res = ename(e)
                            if res != "ConnectionError":
                                bad.append(f"connect order {order}: expected ConnectionError, got {res}")
                            elif n_statements(m):
                                bad.append(f"connect order {order}: ConnectionError but statements were added")
                            else:
                                out.add("connect_rejected")
                        if bad:
                            out.viol(f"{tag}:{c}:wrong-orientation@{where}", f"{c} with {kind} members, sub-interface {where} "
                                     f"created with the wrong orientation ({'plain' if ef else 'flipped'} instead of "
                                     f"{'flipped' if ef else 'plain'}): {bad}", tree, "subclass")
                    finally:
                        put_sub(objs[j], p, original)
            # restored objects comply again (guards the harness)
            assert all(sigs[j].is_compliant(objs[j]) for j in range(2)), "harness: restore failed"
        except Exception as e:
            out.viol(f"{tag}:{c}:{step}:{ename(e)}", f"{c} with {kind} members: {step} raised {e!r}", tree, "subclass")


def subclass_family(quick):
    d = D2
    levels = [dict(pd=d, sd=d, maxm=2, max_sub=1, pair_pd=[()]), dict(pd=d, sd=d, maxm=2, max_sub=1, pair_pd=[()]),
              dict(pd=[()] if quick else d, sd=[], maxm=1)]
    return [t for t in R.structural_family(levels) if any(n["k"] == "s" for _, n in t)]


# ---------------------------------------------------------------------------------------------- part 4: metadata
_JSONSCHEMA = None


def _jsonschema():
    """the `jsonschema` package if importable (it is NOT installed in /venv at the time of writing; amaranth.lib.meta
    itself uses jschon) -- the independent validation is then done by R.validate_json alone"""
    global _JSONSCHEMA
    if _JSONSCHEMA is None:
        try:
            import jsonschema
            _JSONSCHEMA = jsonschema
        except ImportError:
            _JSONSCHEMA = False
    return _JSONSCHEMA


def part_meta(tree, out, both=True, explicit_validate=False):
    from amaranth.lib import wiring as W
    c = R.canon(tree)
    try:
        sig = build_sig(tree)
    except Exception:
        return
    zero = sum(1 for l in R.leaves(tree) if l[2] == 0)
    for fl in ((False, True) if both else (False,)):
        tag = "flip" if fl else "id"
        out.add("evaluations")
        out.add("metadata_documents")
        try:
            comp = W.Component(sig.flip() if fl else sig)
            want = R.metadata(tree, fl)
            # independent validation of the EXPECTED document (every leaf, width 0 included) against the published
            # schema object, without amaranth's own validate()
            step = "own-validator"
            errs = R.validate_json(want, W.ComponentMetadata.schema)
            js = _jsonschema()
            if js:
                step = "jsonschema"
                errs += [e.message for e in js.Draft202012Validator(W.ComponentMetadata.schema).iter_errors(want)]
                out.add("metadata_validated_with_jsonschema_package")
            if errs:
                out.viol(f"meta:{tag}:{c}:schema", f"the metadata document of {c} ({tag}) does not validate against the published "
                         f"schema object: {errs[:3]}", tree, "meta")
            step = "as_json"
            doc = comp.metadata.as_json()
            if doc != want:
                out.viol(f"meta:{tag}:{c}:content", f"metadata of component with signature {c} ({tag}) = {doc}, expected {want}",
                         tree, "meta")
            if explicit_validate:
                step = "validate"
                W.ComponentMetadata.validate(want)
                out.add("metadata_explicit_validate_calls")
            out.add("metadata_leaves", len(R.leaves(tree)))
            out.add("metadata_zero_width_leaves", zero)
        except Exception as e:
            out.viol(f"meta:{tag}:{c}:{step}:{ename(e)}", f"metadata of component with signature {c} ({tag}): {step} raised {e!r}",
                     tree, "meta")


def part_schema(out):
    """facts of the published schema object against the reference"""
    from amaranth.lib import wiring as W
    out.add("evaluations")
    for ptr, got, want in R.schema_fact_errors(W.ComponentMetadata.schema):
        out.viol(f"schema:{ptr}", f"ComponentMetadata.schema at {ptr} is {got!r}, the published schema has {want!r}", [], "schema")
    out.add("schema_facts_checked", len(R.SCHEMA_FACTS))


# ---------------------------------------------------------------------------------------------- driver
def check_trees(task):
    trees, opts = task
    warnings.simplefilter("ignore")
    out = Out_()
    if "schema" in opts["parts"]:
        part_schema(out)
        return out.result()
    for tree in trees:
        if "sig" in opts["parts"]:
            part_sig(tree, out)
        if "connect" in opts["parts"]:
            part_connect(tree, out, opts["variations"], opts.get("all_perm_sims", False))
        if "routes" in opts["parts"] and (opts.get("routes_flat", True) or any(n["k"] == "s" for _, n in tree)):
            part_routes(tree, out, opts.get("route_sims", 2))
        if "subclass" in opts["parts"]:
            part_subclass(tree, out)
        if "constmix" in opts["parts"]:
            part_constmix(tree, out, opts.get("constmix_k", (3, 4)), opts.get("constmix_all_leaves", True))
        if "corrupt" in opts["parts"]:
            part_corrupt(tree, out, opts["bases"])
        if "meta" in opts["parts"] and len(R.node_paths(tree)) <= opts.get("meta_max_members", 99):
            part_meta(tree, out, opts.get("meta_both", True) or len(tree) == 1 or any(n["k"] == "s" for _, n in tree),
                      opts.get("meta_explicit_validate", False))
    return out.result()


D2 = [(), (2,)]
D4 = [(), (1,), (2,), (2, 2)]


def families(rep):
    if rep.quick:
        fam = {
            "depth2": [dict(pd=D2, sd=D2, maxm=2, empty=True), dict(pd=D2, sd=[], maxm=2, empty=True, pair_pd=[()])],
            "depth3": [dict(pd=D2, sd=D2, maxm=1, only_sub=True), dict(pd=[()], sd=D2, maxm=2, max_sub=1),
                       dict(pd=D2, sd=[], maxm=1, empty=True)],
        }
        attr_dims, attr_pair_dims = [(), (2,), (1, 2)], [()]
    else:
        fam = {
            "depth2": [dict(pd=D4, sd=[(), (2,), (2, 2)], maxm=2, empty=True), dict(pd=D2, sd=[], maxm=2, empty=True)],
            "depth3": [dict(pd=D2, sd=D2, maxm=2, max_sub=1), dict(pd=D2, sd=D2, maxm=2, max_sub=1),
                       dict(pd=[(), (1, 2)], sd=[], maxm=1, empty=True)],
        }
        attr_dims, attr_pair_dims = D4, D4
    out = {name: R.structural_family(levels) for name, levels in fam.items()}
    out["attributes"] = R.attribute_family(attr_dims, attr_pair_dims)
    return out, fam, {"single port and one-port chain dims": attr_dims, "port pair dims": attr_pair_dims}


def run(rep):
    fams, levels, attr_dims = families(rep)
    seen, trees, per_family = set(), [], {}
    for name, ts in fams.items():
        per_family[name] = len(ts)
        for t in ts:
            c = R.canon(t)
            if c not in seen:
                seen.add(c)
                trees.append(t)
    rep.setcov("trees_by_family", per_family)
    rep.setcov("distinct_trees", len(trees))
    rep.setcov("distinct_nontrivial", sum(1 for t in trees if R.nontrivial(t)))
    rep.setcov("trees_with_signature_member_arrays", sum(1 for t in trees if R.has_sub_array(t)))
    rep.setcov("trees_depth3", sum(1 for t in trees if R.depth(t) >= 3))
    rep.setcov("space_hash", hashlib.sha1("\n".join(sorted(seen)).encode()).hexdigest())
    opts = {"parts": ["sig", "connect", "routes", "corrupt", "meta"], "route_sims": rep.pick(1, 3), "routes_flat": not rep.quick,
            "variations": QUICK_VARS if rep.quick else list(VARIATIONS),
            "bases": ["k2:T+T.flip", "k2:idle-odd"] if rep.quick else
            ["k2:T+T.flip", "k3:rr", "k2:idle-odd", "k3:idle-even"],
            "all_perm_sims": not rep.quick, "meta_both": not rep.quick, "meta_max_members": rep.pick(2, 99)}
    # heavier trees first would need a cost model; interleave instead
    tasks = [(ch, opts) for ch in chunks(trees, 12)]
    # constant combinations x every argument order of 3 and 4 interfaces, on a small family (per-leaf logic)
    cm = constmix_family(rep.quick)
    cm4 = [t for t in cm if len(t) == 1] if rep.quick else cm
    cm_opts = {"parts": ["constmix"], "constmix_all_leaves": not rep.quick}
    tasks += [(ch, dict(cm_opts, constmix_k=(3,))) for ch in chunks(cm, 4)]
    tasks += [(ch, dict(cm_opts, constmix_k=(4,))) for ch in chunks(cm4, 1)]
    rep.setcov("constmix_trees", {"k3": len(cm), "k4": len(cm4)})
    # zero-width leaves: signature + metadata parts only (value-based corruptions are meaningless at width 0)
    zw = R.zero_width_family()
    zw_opts = {"parts": ["sig", "meta"], "meta_both": True, "meta_explicit_validate": True}
    tasks += [(ch, zw_opts) for ch in chunks(zw, 8)]
    tasks.append(([], {"parts": ["schema"]}))
    # nested signature members as instances of Signature subclasses (identity-based equality)
    sc = subclass_family(rep.quick)
    tasks += [(ch, {"parts": ["subclass"]}) for ch in chunks(sc, 12)]
    rep.setcov("subclass_trees_distinct", len(sc))
    rep.setcov("zero_width_trees", len(zw))
    rep.setcov("jsonschema_package_importable", bool(_jsonschema()))
    tasks = rotate(tasks, rep.seed)
    for part in pmap(check_trees, tasks, rep.procs):
        rep.merge(part)
    for t in (trees[1], trees[len(trees) // 3], trees[len(trees) // 2], trees[-1]):
        rep.sample({"signature": R.canon(t), "leaves (path, effective dir, width, signed, init)":
                    [list(map(str, l)) for l in R.leaves(t)][:6]})
    cors = corruptions(derive(trees[len(trees) // 2], 2, "self"))
    rep.sample({"corruptions_of": R.canon(trees[len(trees) // 2]), "kinds": [cor_tag(c) for c in cors][:12]})
    rep.setcov("exhaustive", True)
    rep.setcov("bounds", {"levels": {k: [{a: (list(map(list, b)) if isinstance(b, list) else b) for a, b in lv.items()} for lv in v]
                                     for k, v in levels.items()},
                          "attribute_family": {k: [list(d) for d in v] for k, v in attr_dims.items()},
                          "port alphabet": "flow x dims x {1, signed(2), range(3), lib.enum(unsigned(2)), StructLayout(w=3)} x {default, non-zero init}",
                          "tuple variations": opts["variations"], "corruption bases": opts["bases"],
                          "metadata: trees with at most this many members (all levels)": opts["meta_max_members"],
                          "constmix": "3 interfaces: every signature of 1..2 members (<=1 signature member, port dims %s, sub dims (),(2,)); "
                                      "4 interfaces: %s of them; leaf elements: %s; per element all 2 x 3^(k-1) constant "
                                      "combinations x all k! argument orders" % (
                                          "(),(2,)" if rep.quick else "(),(2,),(1,2)", "the one-member ones" if rep.quick else "all",
                                          "first and last" if rep.quick else "all"),
                          "metadata of sig.flip() too": "all trees" if opts["meta_both"] else
                          "trees with one member or with a signature member (not flat two-port signatures)"})
    rep.setcov("rule", "every signature tree inside `bounds` (unordered member pairs, names/insertion order alternating; port "
               "shape/init by rotation in the structural families, full product in the attribute family); per tree: double "
               "flip, member- and leaf-level flatten vs an independent walk for sig / sig.flip(), compliance of objects created along "
               "12 routes (create, flip().create, flipped(), PureInterface, Component by __init__ and by annotations, "
               "members.create -- each from sig and from sig.flip()) incl. the signature of every nested sub-interface; every "
               "(route from sig) x (route from sig.flip()) pair connected both ways and compared with the oracle map; every listed tuple variation connected, statement map compared with the oracle, simulated with every "
               "value of every output leaf, every argument permutation + keyword form; idle-* tuples where every second port member is "
               "an input on ALL interfaces (no statement for it, it keeps its init in simulation, and each width / init "
               "corruption of it, signature- and object-level, must still raise ConnectionError); constmix: 3 and 4 interfaces with one leaf element at a "
               "time holding output Signal|Const and every input Signal|matching Const|mismatching Const, in every argument "
               "order (accepted cases: statement map vs oracle + simulation of first/last order; others: ConnectionError, "
               "nothing added); every single-point corruption (missing "
               "member, width, init, second output, constants, object-level width/init, dimensions) of every member / leaf of "
               "every interface; component metadata of sig and sig.flip() compared with the expected document and the "
               "published schema (own validator; `jsonschema` package too when importable); a zero-width family (each port in turn "
               "unsigned(0)) through the signature and metadata parts incl. ComponentMetadata.validate(); facts of the schema "
               "object vs the published document; a family whose nested signature members are instances of Signature "
               "subclasses (trivial, and with a custom create()): equality/identity laws, compliance, connect, and every "
               "sub-interface element re-created with the wrong orientation (must be non-compliant with a reason and "
               "rejected by connect in both orders). non-trivial = tree has a signature member or an array dimension")
    if rep.violations:
        return      # a failing run is reported as such; vacuity is only a concern for a passing run
    for key in ("signatures", "tuples", "connect_accepted", "connect_rejected", "simulations", "permutations",
                "leaf_follow_checks", "leaf_idle_checks", "leaves_flattened", "constant_leaves", "metadata_documents",
                "metadata_leaves", "corrupt_missing", "corrupt_width", "corrupt_init", "corrupt_second-output",
                "corrupt_const-differs", "corrupt_const-vs-signal", "corrupt_obj-width", "corrupt_obj-init", "corrupt_dims",
                "objects_created", "nested_signature_checks", "route_pairs", "constmix_expect_accept", "constmix_expect_error",
                "constmix_signal_input_beside_constant_input", "metadata_zero_width_leaves", "metadata_explicit_validate_calls", "subclass_law_checks",
                "subclass_nested_signature_checks", "corrupt_wrong-orientation",
                "schema_facts_checked", "idle_tuples", "idle_leaves", "corrupt_idle-width", "corrupt_idle-init", "corrupt_idle-obj-width",
                "corrupt_idle-obj-init"):
        rep.require(rep.cov.get(key, 0) > 0, f"{key} never exercised")
    rep.require(rep.cov["trees_depth3"] > 0, "no tree with two nested signature levels")
    rep.assume("the statement map is read from Fragment.statements of the module passed to connect(); simulation uses the public "
               "Simulator/testbench API")


def replay(payload):
    tree = R.norm(payload["tree"])
    opts = {"parts": [payload["part"]], "variations": list(VARIATIONS),
            "bases": ["k2:T+T.flip", "k3:rr", "k2:T+flipped(T)", "k2:idle-odd", "k3:idle-even", "k2:idle-even"],
            "all_perm_sims": True, "meta_both": True, "route_sims": 6, "routes_flat": True, "meta_explicit_validate": True}
    res = check_trees(([tree] if payload["part"] != "schema" else [], opts))
    return [v["what"] for v in res["violations"] if v["sig"] == payload["sig"]]
