"""C13 Asynchronous FIFOs are safe under every interleaving of their clocks.

Three exhaustive families, all on the real simulated design:
  A. explicit-state BFS of (AsyncFIFO / AsyncFIFOBuffered registers + synchroniser stages + memory rows) x (tuple
     queue model) under the action alphabet {write edge, read edge, both edges at once} x (w_en, w_data, r_en);
     safety invariants on every transition, bounded-response liveness computed on the explored graph.
  B. every depth 0..34 x exact_depth x class: the constructor either raises (only ValueError, only where the
     documentation says the depth is not representable) or the design elaborates and simulates.
  C. every periodic clock schedule of period <= 3 over {W, R, B} x read policy on the larger depths with wide,
     all-distinct data (order / loss / duplication with a counter payload).
"""
import itertools
import re
import time

from ..core.pool import pmap, rotate
from ..explore.bfs import explore, replay_path
from ..sim.driver import System, elaborate, run_in_testbench

ID = "C13"
LEVEL = "model_checking"

W, R, B = 1, 2, 3           # clock masks: bit0 = write clock, bit1 = read clock
MASK_NAME = {W: "W", R: "R", B: "WR"}
SYNC_STAGES = 2             # documented default of FFSynchronizer (lib.cdc): "stages ... between input and output"
LIVENESS_LIMIT = 2 * SYNC_STAGES + 3
TIME_CAP = {"quick": 300, "thorough": 3000}    # s per configuration; hitting it is reported as capped / exhaustive: false
INPUT_NAMES = ("w_en", "w_data", "r_en")
DIVERGED = "diverged"       # queue-model component of the sink reached through a failing transition


# ---------------------------------------------------------------- reference: documented depth rules (ints only)
def doc_depth(cls, depth, exact):
    """-> ("ok", effective depth) | ("raise", "ValueError"); written from the class docstrings:
    AsyncFIFO: powers of two, rounded up unless exact_depth; AsyncFIFOBuffered: power of two plus one, rounded up
    unless exact_depth; depth 0 = cannot be read or written."""
    if depth == 0:
        return ("ok", 0)
    k = 0
    if cls == "AsyncFIFO":
        while (1 << k) < depth:
            k += 1
        eff = 1 << k
    else:
        while (1 << k) + 1 < depth:
            k += 1
        eff = (1 << k) + 1
    if exact and eff != depth:
        return ("raise", "ValueError")
    return ("ok", eff)


def make_design(cls, depth, width, exact=False):
    from amaranth.hdl import Module, ClockDomain
    from amaranth.lib import fifo as F
    f = getattr(F, cls)(width=width, depth=depth, r_domain="read", w_domain="write", exact_depth=exact)
    m = Module()
    cw, cr = ClockDomain("write"), ClockDomain("read")
    m.domains.write = cw
    m.domains.read = cr
    m.submodules.fifo = f
    return m, f, cw, cr


def cdc_sources(frag):
    """Structural walk: registers driven in one clocked domain that are sampled as a bare signal by a register of a
    *different* clocked domain (the first flop of a synchroniser). Returns the multi-bit ones, deduplicated."""
    from amaranth.hdl._ast import Assign, Switch, Signal
    driver = {}

    def lhs_walk(f):
        for dom, stmts in f.statements.items():
            if dom != "comb":
                for st in stmts:
                    for s in st._lhs_signals():
                        driver[id(s)] = dom
        for sub, _n, _l in f.subfragments:
            lhs_walk(sub)
    lhs_walk(frag)
    found, seen = [], set()

    def stmt_walk(dom, stmts):
        for st in stmts:
            if isinstance(st, Assign):
                if isinstance(st.rhs, Signal) and driver.get(id(st.rhs), dom) != dom and id(st.rhs) not in seen:
                    seen.add(id(st.rhs))
                    found.append(st.rhs)
            elif isinstance(st, Switch):
                for _pat, body, _loc in st.cases:
                    stmt_walk(dom, body)

    def walk(f):
        for dom, stmts in f.statements.items():
            if dom != "comb":
                stmt_walk(dom, stmts)
        for sub, _n, _l in f.subfragments:
            walk(sub)
    walk(frag)
    return found


FLAGS = ["r_rdy", "not_r_rdy", "w_rdy", "not_w_rdy", "w_level>0", "r_level>0", "full", "empty", "W", "R", "WR", "read", "write",
         "read+write@same-instant", "cdc-change", "w_rdy_with_pending_read_side", "r_rdy_while_full"]
FB = {n: 1 << i for i, n in enumerate(FLAGS)}


def decode_flags(masks):
    tot = 0
    for mk in masks:
        tot |= mk
    return [n for n in FLAGS if tot & FB[n]]


def input_cones(frag, inputs, wname="write", rname="read"):
    """Cone-of-influence on the elaborated design: which of `inputs` can reach (through combinational logic) a register,
    memory write port or synchronous read port clocked by the write domain / by the read domain. Domains other than the
    two named ones (e.g. the reset synchroniser's private domain) are counted on BOTH sides; a statement whose signal
    set cannot be computed counts as reading every input. Returns (set of input indices relevant on a pure write edge,
    same for a pure read edge)."""
    from amaranth.hdl._mem import MemoryInstance
    in_ids = {id(s): i for i, s in enumerate(inputs)}
    everything = set(in_ids)
    comb, clocked = {}, {}

    def rhs(*objs):
        out = set()
        for o in objs:
            try:
                out |= {id(x) for x in o._rhs_signals()}
            except NotImplementedError:
                out |= everything
        return out

    def visit(f):
        if isinstance(f, MemoryInstance):
            for wp in f._write_ports:
                clocked.setdefault(wp._domain, set()).update(rhs(wp._addr, wp._data, wp._en))
            for rp in f._read_ports:
                if rp._domain == "comb":
                    for s in rp._data._lhs_signals():
                        comb.setdefault(id(s), set()).update(rhs(rp._addr))
                else:
                    clocked.setdefault(rp._domain, set()).update(rhs(rp._addr, rp._en))
        for dom, stmts in f.statements.items():
            for st in stmts:
                r = rhs(st)
                if dom == "comb":
                    for s in st._lhs_signals():
                        comb.setdefault(id(s), set()).update(r)
                else:
                    clocked.setdefault(dom, set()).update(r)
        for sub, _n, _l in f.subfragments:
            visit(sub)
    visit(frag)

    def cone(seed):
        seen, work = set(seed), list(seed)
        while work:
            x = work.pop()
            for y in comb.get(x, ()):
                if y not in seen:
                    seen.add(y)
                    work.append(y)
        return {in_ids[x] for x in seen if x in in_ids}
    other = set()
    for dom, sigs in clocked.items():
        if dom not in (wname, rname):
            other |= sigs
    return cone(clocked.get(wname, set()) | other), cone(clocked.get(rname, set()) | other)


def canon_action(a, rel_w=(0, 1), rel_r=(2,)):
    """Representative of an action: inputs outside the cone of influence of the toggled clock(s) are held at 0
    (rel_w / rel_r = indices into (w_en, w_data, r_en) relevant on a write / read edge), and w_data is held at 0 while
    w_en = 0 (the latter is validated on the full-alphabet graphs, see independence())."""
    mask = a[0]
    rel = set()
    if mask & W:
        rel |= set(rel_w)
    if mask & R:
        rel |= set(rel_r)
    v = [x if i in rel else 0 for i, x in enumerate(a[1:])]
    if not v[0]:
        v[1] = 0
    return (mask, v[0], v[1], v[2])


_CONES = {}


def cones_for(cls, depth, width):
    key = (cls, depth, width)
    if key not in _CONES:
        m, f, cw, cr = make_design(cls, depth, width)
        _CONES[key] = tuple(tuple(sorted(x)) for x in input_cones(elaborate(m), [f.w_en, f.w_data, f.r_en]))
    return _CONES[key]


class AFifoSpec:
    """One configuration for the explorer. Model state = (entries oldest first, r_rdy seen after the last event,
    packed value of the clock-domain-crossing source registers after the last event).
    alphabet 'full': every (clock subset, w_en, w_data, r_en); 'reduced': one representative per canon_action class."""
    def __init__(self, cls, depth, width, alphabet="full"):
        self.cls, self.req_depth, self.width, self.alphabet = cls, depth, width, alphabet
        kind, eff = doc_depth(cls, depth, False)
        assert kind == "ok"
        self.depth = eff
        self.actions = [(mask, w_en, w_data, r_en) for mask in (W, R, B) for w_en in (0, 1)
                        for w_data in range(1 << width) for r_en in (0, 1)]
        try:
            self.rel_w, self.rel_r = cones_for(cls, depth, width)
        except Exception:
            self.rel_w, self.rel_r = (0, 1, 2), (0, 1, 2)       # build() will report the elaboration failure
        if alphabet == "reduced":
            self.actions = [a for a in self.actions if self.canon(a) == a]

    def canon(self, a):
        return canon_action(a, self.rel_w, self.rel_r)

    def describe(self):
        return {"cls": self.cls, "depth": self.req_depth, "width": self.width, "alphabet": self.alphabet}

    def tag(self):
        return f"{self.cls}(depth={self.req_depth},width={self.width})"

    def build(self):
        from amaranth.hdl import Cat
        m, f, cw, cr = make_design(self.cls, self.req_depth, self.width)
        self.f = f
        frag = elaborate(m)
        sysm = System(frag, clocks=[cw.clk, cr.clk], inputs=[f.w_en, f.w_data, f.r_en])
        self.nregs = len(sysm.regs)
        self.cross_all = cdc_sources(frag)
        self.cross = [s for s in self.cross_all if len(s) > 1]
        self.cross_w = [len(s) for s in self.cross]
        self.lvl_w = len(f.w_level)
        assert len(f.r_level) == self.lvl_w
        self.obs_cat = Cat(f.w_rdy, f.r_rdy, f.w_level, f.r_level, f.r_data)
        self.post_cat = Cat(f.r_rdy, *self.cross)
        self.impl_depth = f.depth
        return sysm

    def _obs(self, ctx):
        v = ctx.get(self.post_cat)
        return (v & 1, v >> 1)

    def model_init(self, sysm):
        return ((),) + self._obs(sysm.ctx)

    def step(self, sysm, m, a):
        mask, w_en, w_data, r_en = a
        entries, seen_r_rdy, seen_cross = m
        if entries == DIVERGED:
            return m, [], ()
        ctx = sysm.ctx
        sysm.set_inputs(sysm.pack_inputs([w_en, w_data, r_en]))
        o = ctx.get(self.obs_cat)
        lw = self.lvl_w
        w_rdy, r_rdy = o & 1, (o >> 1) & 1
        w_level, r_level, r_data = (o >> 2) & ((1 << lw) - 1), (o >> (2 + lw)) & ((1 << lw) - 1), o >> (2 + 2 * lw)
        if r_rdy != seen_r_rdy:
            raise AssertionError("state vector incomplete: r_rdy differs between the state reached by simulation and "
                                 "the same state after injection")
        errs = []
        n = len(entries)
        depth = self.depth
        fl = FB[MASK_NAME[mask]]
        if self.impl_depth != depth:
            errs.append(f"depth attribute is {self.impl_depth}, documented rounding of {self.req_depth} gives {depth}")
        if r_rdy:
            fl |= FB["r_rdy"]
            if n == 0:
                errs.append("r_rdy asserted while no unread entry exists (duplicate or phantom entry)")
            elif r_data != entries[0]:
                errs.append(f"r_rdy with r_data={r_data}, oldest unread entry is {entries[0]}")
            if n == depth:
                fl |= FB["r_rdy_while_full"]
        else:
            fl |= FB["not_r_rdy"]
        if w_rdy:
            fl |= FB["w_rdy"]
            if n >= depth:
                errs.append(f"w_rdy asserted while {n} entries are held (depth {depth})")
            if n and not r_rdy:
                fl |= FB["w_rdy_with_pending_read_side"]
        else:
            fl |= FB["not_w_rdy"]
        if not 0 <= w_level <= depth:
            errs.append(f"w_level={w_level} outside 0..{depth}")
        if not 0 <= r_level <= depth:
            errs.append(f"r_level={r_level} outside 0..{depth}")
        if w_level:
            fl |= FB["w_level>0"]
        if r_level:
            fl |= FB["r_level>0"]
        if n == depth and depth:
            fl |= FB["full"]
        if n == 0:
            fl |= FB["empty"]
        # the event
        sysm.pulse(mask)
        new = entries
        popped = False
        if (mask & R) and r_en and r_rdy and new:
            new = new[1:]
            popped = True
            fl |= FB["read"]
        if (mask & W) and w_en and w_rdy:
            new = new + (w_data,)
            fl |= FB["write"]
            if popped:
                fl |= FB["read+write@same-instant"]
        r_rdy2, cross2 = self._obs(ctx)
        # clock-domain-crossing hazard: a multi-bit register sampled by the other domain may change one bit per event
        if cross2 != seen_cross:
            x, off = seen_cross ^ cross2, 0
            for s, wd in zip(self.cross, self.cross_w):
                d = (x >> off) & ((1 << wd) - 1)
                if d:
                    fl |= FB["cdc-change"]
                    if d & (d - 1):
                        errs.append(f"cdc: {s.name} sampled by the other clock domain changed {bin(d).count('1')} bits in one event")
                off += wd
        if errs:
            # model and implementation have diverged: report, and make the successor a sink so that the (now meaningless,
            # possibly unbounded) product beyond the first failure of a path is not explored
            return (DIVERGED, 1, 0), errs, (fl,)
        return (new, r_rdy2, cross2), errs, (fl,)


def independence(spec, res):
    """On a full-alphabet graph: actions that differ only in inputs the toggled clock cannot sample must lead to the
    same successor. Returns (groups compared, first counterexample or None)."""
    classes = {}
    for ai, a in enumerate(spec.actions):
        classes.setdefault(spec.canon(a), []).append(ai)
    groups = [g for g in classes.values() if len(g) > 1]
    n = 0
    for k, out in res.edges.items():
        by = dict(out)
        for g in groups:
            n += 1
            first = by[g[0]]
            for ai in g[1:]:
                if by[ai] != first:
                    return n, {"path": [spec.actions[i] for i in res.path_to(k)], "a": spec.actions[g[0]], "b": spec.actions[ai]}
    return n, None


# ---------------------------------------------------------------- bounded-response liveness on the explored graph
def liveness(spec, res):
    """Smallest K such that every path of w_en=0 actions, started in ANY reachable state, that contains at least K
    read-clock edges ends in a state with r_rdy = (queue model non-empty). If no K <= LIVENESS_LIMIT works, the weaker
    demand of the statement (>= K edges of EACH clock) is tried; if that fails as well a witness is returned:
    (path from reset to some state) + (quiet path with >= LIVENESS_LIMIT edges of each clock ending with r_rdy low).
    Returns (K or None, witness action-index path or None, number of pending states, number of quiet edges)."""
    keys = list(res.parent)
    index = {k: i for i, k in enumerate(keys)}
    succ = {W: [()] * len(keys), R: [()] * len(keys), B: [()] * len(keys)}
    nedges = 0
    for k, out in res.edges.items():
        i = index[k]
        per = {W: {}, R: {}, B: {}}
        for ai, k2 in out:
            a = spec.actions[ai]
            if a[1] == 0:
                per[a[0]].setdefault(index[k2], ai)
        for mk in (W, R, B):
            succ[mk][i] = tuple(per[mk].items())
            nedges += len(per[mk])
    bad = {i for i, k in enumerate(keys) if k[1][0] and not k[1][1] and k[1][0] != DIVERGED}
    allst = set(range(len(keys)))

    def post(X, masks):
        out = set()
        for mk in masks:
            sm = succ[mk]
            for i in X:
                for j, _ai in sm[i]:
                    out.add(j)
        return out

    def close(X, masks):
        X = set(X)
        work = list(X)
        while work:
            i = work.pop()
            for mk in masks:
                for j, _ai in succ[mk][i]:
                    if j not in X:
                        X.add(j)
                        work.append(j)
        return X

    # G[k] = end points of quiet paths with >= k read edges (any number of write edges); G[k+1] is a subset of G[k]
    G = allst
    for k in range(0, LIVENESS_LIMIT + 1):
        if k:
            G = close(post(G, (R, B)), (W,))
        if not (G & bad):
            return k, None, len(bad), nedges

    # weaker demand: >= K edges of each clock. Forward search over (state, read edges, write edges), counters
    # saturating at K, from every state with (0, 0); parents kept for the witness.
    def both(K):
        start = [(i, 0, 0) for i in allst]
        parent = {n: None for n in start}
        frontier = start
        while frontier:
            nxt = []
            for node in frontier:
                i, cr, cw = node
                for mk in (W, R, B):
                    n2c = (min(K, cr + (1 if mk & R else 0)), min(K, cw + (1 if mk & W else 0)))
                    for j, ai in succ[mk][i]:
                        n2 = (j,) + n2c
                        if n2 not in parent:
                            parent[n2] = (node, ai)
                            if n2c == (K, K) and j in bad:
                                path = []
                                cur = n2
                                while parent[cur] is not None:
                                    cur, a_i = parent[cur]
                                    path.append(a_i)
                                path.reverse()
                                return res.path_to(keys[cur[0]]) + path
                            nxt.append(n2)
            frontier = nxt
        return None
    wit = both(LIVENESS_LIMIT)          # a witness, if any, is found after about 2 * LIMIT BFS levels
    if wit is not None:
        return None, wit, len(bad), nedges
    for K in range(1, LIVENESS_LIMIT + 1):
        if both(K) is None:
            return K, None, len(bad), nedges


# ---------------------------------------------------------------- workers
def run_config(task):
    cfg, replay_n, procs, want_live, time_cap = task
    t0 = time.time()
    spec = AFifoSpec(*cfg)
    out = {"cfg": spec.describe(), "tag": spec.tag(), "states": 0, "transitions": 0, "depth": 0, "flags": [], "capped": False,
           "validated": 0, "wall": 0, "errors": [], "mismatch": [], "elab": None, "live": None, "indep": None}
    try:
        spec.build()
    except Exception as e:
        out["elab"] = type(e).__name__
        return out
    res = explore(spec, procs=procs, replay_n=replay_n, cap_states=2_000_000, keep_edges=want_live, time_cap=time_cap)
    out.update(states=res.states, transitions=res.transitions, depth=res.max_depth, flags=decode_flags(res.flags),
               capped=res.capped, validated=res.traces_validated, ncross=len(spec.cross),
               ncross_all=len(spec.cross_all), nregs=spec.nregs, nactions=len(spec.actions),
               cones={"write_edge": [INPUT_NAMES[i] for i in spec.rel_w], "read_edge": [INPUT_NAMES[i] for i in spec.rel_r]})
    for errs, path in res.errors:
        out["errors"].append({"errs": errs, "path": [spec.actions[i] for i in path]})
    for path, want, got in res.replay_mismatch[:3]:
        out["mismatch"].append({"path": [spec.actions[i] for i in path], "bfs": repr(want), "replayed": repr(got)})
    if want_live and not res.capped:
        k, wit, nbad, nq = liveness(spec, res)
        out["live"] = {"K": k, "witness": [spec.actions[i] for i in wit] if wit else None, "pending_states": nbad, "quiet_edges": nq}
        if spec.alphabet == "full":
            n, cex = independence(spec, res)
            out["indep"] = {"groups": n, "cex": cex}
    out["wall"] = round(time.time() - t0, 2)
    return out


def _kind(err):
    for key in ("r_rdy asserted while no", "r_rdy with r_data", "w_rdy asserted while", "w_level", "r_level", "cdc:", "depth attribute"):
        if err.startswith(key):
            return key.rstrip(":").replace(" ", "_")
    return err[:30]


# ---- family B / C: construction sweep and periodic schedules with counter payload
def sched_run(cls, depth, exact, width, pattern, policy, n_items):
    """Directed run: producer writes 1,2,3.. whenever w_rdy; consumer policy: 'always' | 'alternate' | 'fill-then-drain'.
    Returns list of error strings (queue oracle)."""
    kind, eff = doc_depth(cls, depth, exact)
    m, f, cw, cr = make_design(cls, depth, width, exact)
    frag = elaborate(m)
    from amaranth.hdl import Cat
    clk = Cat(cw.clk, cr.clk)
    errs = []
    stats = {"max_held": 0, "read": 0, "written": 0, "events": 0}

    def body(ctx):
        q = []
        nxt = 1
        quiet_r = 0
        draining = False
        t = 0
        budget = (n_items + eff + 8) * 12 * len(pattern)
        while t < budget:
            mask = pattern[t % len(pattern)]
            t += 1
            w_en = 1 if nxt <= n_items else 0
            if policy == "always":
                r_en = 1
            elif policy == "alternate":
                r_en = (t // 2) & 1
            else:
                r_en = 1 if draining else 0
            ctx.set(f.w_en, w_en)
            ctx.set(f.w_data, nxt & ((1 << width) - 1))
            ctx.set(f.r_en, r_en)
            w_rdy, r_rdy, r_data = ctx.get(f.w_rdy), ctx.get(f.r_rdy), ctx.get(f.r_data)
            wl, rl = ctx.get(f.w_level), ctx.get(f.r_level)
            if r_rdy and not q:
                errs.append(f"event {t}: r_rdy with nothing unread")
                return
            if r_rdy and r_data != q[0]:
                errs.append(f"event {t}: r_data={r_data}, oldest unread is {q[0]}")
                return
            if w_rdy and len(q) >= eff:
                errs.append(f"event {t}: w_rdy with {len(q)} entries held (depth {eff})")
                return
            if not (0 <= wl <= eff and 0 <= rl <= eff):
                errs.append(f"event {t}: levels w={wl} r={rl} outside 0..{eff}")
                return
            if policy == "fill-then-drain" and not draining and (not w_rdy or not w_en) and mask & W:
                quiet_r += 1
                if quiet_r > 3:
                    draining = True
            ctx.set(clk, mask)
            ctx.set(clk, 0)
            stats["events"] += 1
            if mask & R and r_en and r_rdy:
                q.pop(0)
                stats["read"] += 1
            if mask & W and w_en and w_rdy:
                q.append(nxt & ((1 << width) - 1))
                nxt += 1
                stats["written"] += 1
            stats["max_held"] = max(stats["max_held"], len(q))
            if nxt > n_items and not q and policy != "never":
                break
        if eff and (nxt <= n_items or q):
            errs.append(f"after {t} events only {nxt - 1} of {n_items} entries were accepted and {len(q)} are still unread")
    run_in_testbench(frag, body)
    return errs, stats


def periodic_patterns(maxlen):
    out = []
    for n in range(1, maxlen + 1):
        for p in itertools.product((W, R, B), repeat=n):
            if any(x & W for x in p) and any(x & R for x in p):
                # canonical rotation only (a rotated pattern is the same schedule started later) -- but the start phase
                # matters for the reset window, so keep all rotations
                out.append(p)
    return out


def w_construct(task):
    """family B (+C when patterns given) for one (cls, depth, exact)."""
    cls, depth, exact, width, patterns, policies = task
    from amaranth.lib import fifo as F
    out = {"key": (cls, depth, exact), "cov": {"constructions": 1, "constructed": 0, "rejected": 0, "schedule_runs": 0,
                                                "schedule_events": 0, "schedule_entries": 0}, "samples": [], "violations": []}
    want = doc_depth(cls, depth, exact)
    tag = f"{cls}(depth={depth},exact_depth={exact})"
    payload = {"kind": "construct", "cls": cls, "depth": depth, "exact": exact, "width": width}
    try:
        f = getattr(F, cls)(width=width, depth=depth, exact_depth=exact)
        got = ("ok", f.depth)
    except Exception as e:
        got = ("raise", type(e).__name__)
    if got != want:
        out["violations"].append({"sig": f"{tag}:constructor", "what": f"{tag}: constructor gives {got}, documentation says {want}",
                                  "payload": payload})
        return out
    if want[0] == "raise":
        out["cov"]["rejected"] += 1
        return out
    out["cov"]["constructed"] += 1
    try:
        m, f, cw, cr = make_design(cls, depth, width, exact)
        elaborate(m)
    except Exception as e:
        out["violations"].append({"sig": f"{tag}:elaborate:{type(e).__name__}",
                                  "what": f"{tag} is constructible (depth attribute {want[1]}) but elaboration raises {type(e).__name__}: {e}",
                                  "payload": payload})
        return out
    eff = want[1]
    for pat in patterns:
        for pol in policies:
            n_items = 2 * eff + 3
            try:
                errs, stats = sched_run(cls, depth, exact, width, pat, pol, n_items)
            except Exception as e:
                errs, stats = [f"simulation raised {type(e).__name__}"], {"events": 0, "written": 0, "max_held": 0}
            out["cov"]["schedule_runs"] += 1
            out["cov"]["schedule_events"] += stats["events"]
            out["cov"]["schedule_entries"] += stats["written"]
            if eff and stats["max_held"] == eff:
                out["cov"]["schedule_runs_reaching_full"] = out["cov"].get("schedule_runs_reaching_full", 0) + 1
            if errs:
                ps = "".join("B" if x == B else MASK_NAME[x] for x in pat)
                kind = re.sub(r"[0-9]+", "N", errs[0].split(":", 1)[-1].strip())[:48]
                out["violations"].append({"sig": f"{tag}:schedule:{kind}",
                                          "what": f"{tag} width={width}, periodic clock schedule {ps}, read policy {pol}: {errs} "
                                                  "(first failing schedule of this configuration; the others are not run)",
                                          "payload": dict(payload, kind="schedule", pattern=list(pat), policy=pol, n_items=n_items)})
                return out
    return out


# ---------------------------------------------------------------- driver
def bfs_configs(rep):
    """(pool configurations: one core each), (big configurations: frontier-parallel, one after the other)"""
    F, RD = "full", "reduced"
    if rep.quick:
        small = [("AsyncFIFO", 1, 1, F), ("AsyncFIFO", 2, 1, F), ("AsyncFIFOBuffered", 2, 1, F)]
        big = [("AsyncFIFO", 2, 2, RD), ("AsyncFIFOBuffered", 3, 1, RD)]
    else:
        small = [("AsyncFIFO", 1, 1, F), ("AsyncFIFO", 1, 2, F), ("AsyncFIFO", 2, 1, F), ("AsyncFIFOBuffered", 1, 1, F),
                 ("AsyncFIFOBuffered", 2, 1, F)]
        big = [("AsyncFIFO", 2, 2, F), ("AsyncFIFOBuffered", 2, 2, F), ("AsyncFIFOBuffered", 3, 1, F), ("AsyncFIFO", 4, 1, RD),
               ("AsyncFIFOBuffered", 3, 2, RD)]
    return small, big


def run(rep):
    small, big = bfs_configs(rep)
    replay_n = rep.pick(12, 60)
    pats_all = periodic_patterns(3)
    pats_q = periodic_patterns(2)
    policies = ("always", "alternate", "fill-then-drain")
    ctasks = []
    for cls in ("AsyncFIFO", "AsyncFIFOBuffered"):
        for depth in range(0, 35):
            for exact in (False, True):
                if rep.quick:
                    pats = pats_q if depth <= 9 or depth in (16, 17, 33) else ()
                else:
                    pats = pats_all if depth <= 17 else pats_q
                ctasks.append((cls, depth, exact, 8, pats, policies))
    results = []
    stasks = rotate([(c, replay_n, 1, True, TIME_CAP[rep.tier]) for c in small], rep.seed)
    mixed = [("bfs", t) for t in stasks] + [("con", t) for t in rotate(ctasks, rep.seed)]
    cparts = []
    for kind, r in pmap(_dispatch, mixed, rep.procs):
        (results if kind == "bfs" else cparts).append(r)
    for c in big:
        results.append(run_config((c, replay_n, rep.procs, True, TIME_CAP[rep.tier])))
    order = {c: i for i, c in enumerate(small + big)}
    results.sort(key=lambda r: order[(r["cfg"]["cls"], r["cfg"]["depth"], r["cfg"]["width"], r["cfg"]["alphabet"])])
    allflags, Ks, alph, indep_cex = set(), {}, {}, []
    for r in results:
        tag, d = r["tag"], r["cfg"]
        rep.add("configurations", 1)
        if r["elab"]:
            # the violation itself is reported by the construction sweep (same defect, minimal payload)
            rep.add("configurations_not_elaborating", 1)
            rep.sample({"config": tag, "elaboration_raises": r["elab"]}, limit=40)
            continue
        rep.add("states", r["states"])
        rep.add("transitions", r["transitions"])
        rep.add("traces_validated_against_impl", r["validated"])
        allflags.update(r["flags"])
        alph[tag] = f"{d['alphabet']}:{r['nactions']} actions"
        if r["capped"]:
            rep.add("capped_configurations", 1)
        for e in r["errors"]:
            rep.violation(f"{tag}:{_kind(e['errs'][0])}", f"{tag}: {e['errs']} after events (clocks W=1/R=2/both=3, w_en, w_data, r_en) {e['path']}",
                          {"kind": "bfs", "cfg": d, "path": e["path"]})
        for mm in r["mismatch"]:
            rep.violation(f"{tag}:replay-mismatch", f"{tag}: state reached by BFS state injection differs from replay from reset: {mm}",
                          {"kind": "bfs", "cfg": d, "path": mm["path"]})
        live = r["live"]
        if live:
            rep.add("liveness_graphs", 1)
            rep.add("liveness_pending_states", live["pending_states"])
            rep.add("liveness_quiet_edges", live["quiet_edges"])
            Ks[tag] = live["K"]
            if live["K"] is None:
                rep.violation(f"{tag}:liveness", f"{tag}: an entry is still not readable (r_rdy low) at the end of a path whose last events contain "
                              f">= {LIVENESS_LIMIT} edges of each clock and no write: {live['witness']}",
                              {"kind": "live", "cfg": d, "path": live["witness"]})
        if r["indep"]:
            rep.add("alphabet_reduction_classes_compared", r["indep"]["groups"])
            if r["indep"]["cex"]:
                indep_cex.append((tag, r["indep"]["cex"]))
        rep.sample({"config": tag, "alphabet": alph[tag], "states": r["states"], "transitions": r["transitions"], "bfs_depth": r["depth"],
                    "liveness_K_read_edges": live["K"] if live else None, "cdc_multibit_registers": r.get("ncross"),
                    "state_registers": r.get("nregs"), "inputs_in_cone": r.get("cones"), "wall_s": r["wall"]}, limit=40)
    for part in sorted(cparts, key=lambda p: (p["key"][1], p["key"][0], p["key"][2])):
        rep.merge({k: v for k, v in part.items() if k != "key"})
    explored = [r for r in results if not r["elab"]]
    reduced_used = any(r["cfg"]["alphabet"] == "reduced" for r in explored)
    rep.setcov("liveness_K_by_config", Ks)
    rep.setcov("alphabet_by_config", alph)
    rep.setcov("alphabet_reduction_counterexamples", [f"{t}: {c}" for t, c in indep_cex])
    rep.setcov("exhaustive", rep.cov.get("capped_configurations", 0) == 0 and not (reduced_used and indep_cex))
    rep.setcov("actions", "full: {write-clock edge, read-clock edge, both simultaneously} x every (w_en, w_data, r_en) valuation; "
               "reduced: inputs outside the structural cone of influence of the toggled clock held at 0, and w_data = 0 while w_en = 0 "
               "(the reduced alphabet is compared against the full one, successor by successor, on every full-alphabet graph)")
    rep.setcov("flags_seen", sorted(allflags))
    rep.setcov("rule", "A: full reachable product graph of (real simulated async FIFO: counters, Gray registers, synchroniser flops, "
               "output registers, memory rows) x (tuple queue model), every state expanded with every action of the alphabet; "
               "safety invariants (order/loss/duplication via r_rdy -> r_data = head, w_rdy -> fewer than depth held, levels in 0..depth, "
               "one-bit-per-event change of multi-bit registers sampled by the other domain) on every transition; liveness = smallest K "
               "such that every w_en=0 path with >= K read edges from any reachable state ends with r_rdy = (model non-empty), K <= %d "
               "required. B: every depth 0..34 x exact_depth x class constructs-or-raises per the documented rounding and elaborates. "
               "C: every periodic clock schedule over {W,R,both} of period <= 2 (quick) / 3 (thorough) x 3 read policies with an 8-bit "
               "counter payload, queue oracle" % LIVENESS_LIMIT)
    rep.assume("state injection through ctx.set is validated by replaying shortest paths from reset on fresh simulators")
    rep.assume("write-domain reset is never asserted (the statement does not cover the documented entry-dropping reset)")
    rep.assume("the simulator has no metastability: the one-bit-per-event discipline of registers sampled by the other domain "
               "is checked as an explicit invariant instead")
    # vacuity guards (a run that already reports behavioural violations exits 1 anyway; its graphs are cut short by the sinks)
    if any(":elaborate:" not in v["sig"] for v in rep.violations):
        return
    rep.require(bool(explored), "no BFS configuration could be explored")
    for need in FLAGS:
        rep.require(need in allflags, f"flag {need} never observed")
    rep.require(rep.cov.get("liveness_graphs", 0) > 0, "liveness never evaluated")
    rep.require(rep.cov.get("liveness_pending_states", 0) > 0, "liveness: no state with a written-but-not-yet-readable entry")
    rep.require(rep.cov.get("alphabet_reduction_classes_compared", 0) > 0, "alphabet reduction never compared against the full alphabet")
    rep.require(rep.cov.get("constructed", 0) > 0 and rep.cov.get("rejected", 0) > 0, "construction sweep: both accepted and rejected depths")
    rep.require(rep.cov.get("schedule_runs_reaching_full", 0) > 0, "periodic schedules never filled a FIFO")
    rep.require(not (reduced_used and indep_cex), f"reduced alphabet is not equivalent to the full one on this tree: {indep_cex[:1]}")


def _dispatch(t):
    kind, task = t
    return (kind, run_config(task) if kind == "bfs" else w_construct(task))


def replay(payload):
    kind = payload.get("kind", "bfs")
    if kind == "construct":
        out = w_construct((payload["cls"], payload["depth"], payload["exact"], payload["width"], (), ()))
        return [v["what"] for v in out["violations"]]
    if kind == "schedule":
        out = w_construct((payload["cls"], payload["depth"], payload["exact"], payload["width"], (tuple(payload["pattern"]),), (payload["policy"],)))
        return [v["what"] for v in out["violations"]]
    cfg = payload["cfg"]
    spec = AFifoSpec(cfg["cls"], cfg["depth"], cfg["width"], "full")
    idx = [spec.actions.index(tuple(a)) for a in payload["path"]]
    key, errs = replay_path(spec, idx)
    if kind == "live":
        # the recorded path ends with a quiet suffix holding >= LIVENESS_LIMIT edges of each clock
        nr = nw = 0
        for a in reversed(payload["path"]):
            if a[1]:
                break
            nr += 1 if a[0] & R else 0
            nw += 1 if a[0] & W else 0
        entries, r_rdy, _c = key[1]
        if entries and not r_rdy and nr >= LIVENESS_LIMIT and nw >= LIVENESS_LIMIT:
            return [f"after {nr} read-clock and {nw} write-clock edges without a write: {len(entries)} unread entries, r_rdy=0"]
        return []
    return [f"at action {spec.actions[i]}: {e}" for i, e in errs]
