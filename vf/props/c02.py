"""C02 Assignments and control flow: last active assignment wins, per bit -- bounded-exhaustive module terms x all inputs.

Module terms are built through the Module DSL (m.If / m.Elif / m.Else / m.Switch / m.Case / m.Default / m.FSM), many per
simulated design (each with its own copy of the driven signals), and compared with vf.ref.stmt under every input valuation
(comb) or every input valuation x a set of register states (sync; pointwise check of the transition function).
"""
import itertools
import warnings

from ..core.pool import pmap, rotate, chunks
from ..gen import terms as G
from ..ref import expr as R
from ..ref import stmt as S
from ..sim.driver import run_in_testbench, elaborate
from .c05 import build_target

ID = "C02"
LEVEL = "exploration"

# inputs (shared by all module terms of a batch)
C1, C2, C3, D, E = 0, 1, 2, 3, 4
INPUTS = {C1: (1, False), C2: (2, False), C3: (2, True), D: (3, False), E: (2, True)}
# driven signals (one private copy per module term): index -> (width, signed, init)
T, U = 10, 11
DRIVEN = {T: (4, False, 0b0101), U: (3, True, -2)}


def L(i):
    sh = INPUTS[i] if i in INPUTS else DRIVEN[i][:2]
    return ("s", i, sh[0], sh[1])


c1, c2, c3, d, e, t, u = L(C1), L(C2), L(C3), L(D), L(E), L(T), L(U)

# assignment pool: target forms x RHS shapes (narrower / equal / wider, signed / unsigned)
ASSIGN = [
    ("assign", t, d),                                              # zero-extend u3 -> u4
    ("assign", t, e),                                              # sign-extend s2 -> u4
    ("assign", u, d),                                              # u3 into s3
    ("assign", u, ("b", "+", d, e)),                               # wider signed RHS truncated
    ("assign", ("slice", t, 1, 3, None), d),                       # truncation into a slice
    ("assign", ("slice", t, 2, 4, None), e),
    ("assign", ("bsel", t, c2, 2), e),                             # part select, offset may run off the end
    ("assign", ("wsel", t, c2, 2), d),
    ("assign", ("bsel", t, c1, 3), ("u", "inv", d)),               # offset too narrow to reach the top of the target, window wider than 1
    ("assign", ("cat", ("wsel", u, ("k", 1), 2), ("slice", t, 0, 2, None)), ("b", "+", d, ("c", 9, 4, False))),   # constant-offset word straddling the end, followed by another part
    ("assign", ("cat", ("idx", t, 0), u), ("b", "*", d, e)),       # concatenation of two targets, signed product
    ("assign", ("arr", c1, t, u), d),                              # array element
    ("assign", ("u", "as_signed", t), e),
    ("assign", ("bsel", ("slice", t, 1, 4, None), c2, 3), ("u", "inv", d)),   # nested part-of-slice with clipping
    ("assign", ("slice", ("wsel", u, c1, 2), 0, 1, None), c1),     # slice-of-part
    ("assign", t, ("c", -1, 1, True)),
    ("assign", ("idx", u, -1), ("c", 1, 1, False)),
]
SMALL = [ASSIGN[i] for i in (0, 1, 3, 6, 10, 11)]
CONDS = [c1, c2, c3, ("b", "==", c2, ("c", 2, 2, False)), ("u", "inv", c1), ("c", 0, 1, False), ("c", 1, 1, False)]
TESTS = [c2, c3, ("cat", c1, c1), ("slice", d, 0, 0, None)]       # last one: zero-width test


def case_sets(test):
    w, sg = S.target_shape(test)
    vals = list(R.values_of(w, sg)) if w else [0]
    out = []
    if w == 2:
        a, b = vals[0], vals[-1]
        out.append([((a,), 0), ((b,), 1), (None, 2)])                       # int cases + default
        out.append([((a, b), 0), (("1-",), 1), (None, 2)])                  # multi-pattern, don't-care string
        out.append([(("-1",), 0), (("1-",), 1), (("--",), 2), ((a,), 3)])   # overlapping: first match; last unreachable
        out.append([((), 0), (("0-",), 1)])                                 # Case() with no patterns never matches; no default
        out.append([(None, 0), ((a,), 1)])                                  # Case after Default is never active
        out.append([(("1 0",), 0), ((vals[1],), 1)])                        # whitespace in pattern
        # integer patterns outside the range of the tested value (their two's-complement bits alias an in-range value): never match
        alias = [2, 3, -3] if sg else [-1, -2, 5]
        out.append([((alias[0],), 0), ((b,), 1), (None, 2)])
        out.append([((alias[1], alias[2], a), 0), (None, 1)])
    elif w == 0:
        out.append([((0,), 0), (None, 1)])
        out.append([(("",), 0), (None, 1)])
        out.append([(None, 0)])
    return out


def constructs(pool, conds, nest=None):
    """single control-flow constructs with bodies drawn from pool; `nest` (a list of statements) is substituted for
    one hole to build two-level nestings"""
    def bodies(n):
        src = pool if n <= 2 else pool[:4]
        for combo in itertools.product(src, repeat=n):
            yield [[x] for x in combo]
    for cond in conds:
        for (b0,) in bodies(1):
            yield ("if", [(cond, b0)], None)
    for cond in conds[:4]:
        for b0, b1 in bodies(2):
            yield ("if", [(cond, b0)], b1)
    for ca, cb in ((c1, c2), (c3, c1), (("c", 0, 1, False), c2)):
        for b0, b1, b2 in bodies(3):
            yield ("if", [(ca, b0), (cb, b1)], b2)
            yield ("if", [(ca, b0), (cb, b1), (d, b2)], None)                # If / Elif / Elif, no Else
    for test in TESTS:
        for cs in case_sets(test):
            n = max(h for _p, h in cs) + 1
            for bs in bodies(n):
                yield ("switch", test, [(p, bs[h]) for p, h in cs])


def nested(pool):
    inner = list(constructs(pool[:3], [c2, c3]))
    for st in inner:
        if st[0] == "switch" and len(st[2]) > 3:
            continue
        for cond in (c1, c3):
            yield ("if", [(cond, [st])], [pool[0]])
            yield ("if", [(cond, [pool[1]])], [st])
            yield ("if", [(cond, [pool[1], st])], None)                       # assignment then construct in one block
        yield ("switch", c2, [((1,), [st]), (("1-",), [pool[2]]), (None, [st])])
        yield ("switch", c3, [((-1,), [pool[0]]), (None, [st, pool[3]])])


def after_construct(pool):
    """inside one conditional body: a construct, then an assignment to bits the construct may have driven (the later assignment wins)"""
    for st in constructs(pool[:3], [c2, c3]):
        if st[0] == "switch" and len(st[2]) > 3:
            continue
        for k in range(3):
            yield ("if", [(c1, [st, pool[k]])], None)


def rhs_of(st):
    """right-hand sides and conditions read by a statement (targets excluded)"""
    if st[0] == "assign":
        return [st[2]]
    if st[0] == "if":
        return [c for c, _b in st[1]] + [rhs_of(x) for _c, b in st[1] for x in b] + [rhs_of(x) for x in (st[2] or [])]
    return [st[1]] + [rhs_of(x) for _p, b in st[2] for x in b]


def reads_driven(mo):
    r = repr([rhs_of(st) for st in mo])
    return "('s', 10," in r or "('s', 11," in r


def split_terms():
    """one signal whose halves are driven from two fragments of the same domain (two simulator processes update it in one delta cycle)"""
    lo = lambda rhs: ("assign", ("slice", t, 0, 2, None), rhs)
    hi = lambda rhs: ("assign", ("slice", t, 2, 4, None), rhs)
    ulo = lambda rhs: ("assign", ("slice", u, 0, 1, None), rhs)
    uhi = lambda rhs: ("assign", ("slice", u, 1, 3, None), rhs)
    mods = []
    for ca, cb in ((c1, c2), (c3, c1), (c2, c3)):
        for ra, rb in ((d, e), (e, d), (("b", "+", t, d), ("u", "inv", t)), (c3, ("c", 3, 2, False))):
            for A, B in ((lo, hi), (hi, lo), (ulo, uhi)):
                mods.append([("if", [(ca, [A(ra)])], [A(rb)]), ("switch", cb, [((1,), [B(rb)]), (None, [B(ra)])])])
                mods.append([("if", [(ca, [A(ra)])], None), ("if", [(cb, [B(rb)])], None)])
                mods.append([A(ra), ("switch", cb, [((0,), [B(ra)]), ((1,), [])])])
    return mods


def module_terms(tier_quick):
    mods = []
    pool = ASSIGN if not tier_quick else ASSIGN
    for st in ASSIGN:
        mods.append([st])
    for a, b in itertools.permutations(ASSIGN, 2):
        mods.append([a, b])                                                    # two assignments in program order
    for st in constructs(SMALL, CONDS):
        mods.append([st])
    for st in constructs(ASSIGN[6:], CONDS[:3]):
        mods.append([st])
    for st in nested(SMALL):
        mods.append([st])
        mods.append([SMALL[4], st])                                            # plain assignment before / after a construct
        mods.append([st, SMALL[5]])
    for st in after_construct(SMALL):
        mods.append([st])
    # an UNSIGNED right-hand side narrower than the target whose value comes from an operator that does not confine it to its own width
    # in a naive evaluation (~x, reinterpretation of a negative value): the extension is by zeros
    for rhs in (("u", "inv", c2), ("u", "as_unsigned", e), ("u", "as_unsigned", c3), ("u", "inv", c1), ("b", "^", ("u", "inv", c2), c1)):
        for tgt in (t, u, ("slice", t, 1, 4, None), ("cat", u, t)):
            mods.append([("assign", tgt, rhs)])
            mods.append([("if", [(c1, [("assign", tgt, rhs)])], [("assign", tgt, d)])])
    return mods


def stmt_domain(st):
    """mixed modules: assignments to t are combinational, assignments to u are synchronous"""
    return "comb" if S._all_leaves(st[1]) <= {T} else "sync"


MIXED_COMB = [("assign", t, d), ("assign", ("slice", t, 1, 3, None), e)]
MIXED_SYNC = [("assign", u, d), ("assign", u, ("b", "+", u, e)), ("assign", ("idx", u, 0), c1)]


def mixed_terms():
    """one control-flow structure driving a combinational and a synchronous signal: bodies are empty, comb-only, sync-only or both"""
    bodies = [[], [MIXED_COMB[0]], [MIXED_SYNC[0]], [MIXED_SYNC[1]], [MIXED_COMB[1], MIXED_SYNC[2]], [MIXED_SYNC[0], MIXED_COMB[0]]]
    mods = []
    for test in (c2, c3):
        for cs in case_sets(test):
            n = max(h for _p, h in cs) + 1
            for bs in itertools.product(bodies, repeat=n):
                if n >= 4 and bs[3] is not bodies[1] and bs[3] is not bodies[2]:
                    continue
                mods.append([("switch", test, [(p, bs[h]) for p, h in cs])])
    for ca, cb in ((c1, c2), (c3, c1)):
        for b0, b1, b2 in itertools.product(bodies, repeat=3):
            mods.append([("if", [(ca, b0), (cb, b1)], b2)])
            mods.append([("if", [(ca, b0), (cb, b1)], None), MIXED_SYNC[0] if b2 and stmt_domain(b2[0]) == "comb" else MIXED_COMB[0]])
    for b0, b1 in itertools.product(bodies, repeat=2):
        mods.append([("if", [(c2, b0)], b1)])
        mods.append([("if", [(c1, [("switch", c2, [((1,), b0), (None, b1)])])], b0)])
    return mods


def emit(m, dom, stmts, sigs):
    for st in stmts:
        if st[0] == "assign":
            if dom == "mixed":
                m.d[stmt_domain(st)] += build_target(st[1], sigs).eq(G.build(st[2], sigs))
            else:
                dom += build_target(st[1], sigs).eq(G.build(st[2], sigs))
        elif st[0] == "if":
            for n, (cond, body) in enumerate(st[1]):
                with (m.If if n == 0 else m.Elif)(G.build(cond, sigs)):
                    emit(m, dom, body, sigs)
            if st[2] is not None:
                with m.Else():
                    emit(m, dom, st[2], sigs)
        elif st[0] == "switch":
            with m.Switch(G.build(st[1], sigs)):
                for pats, body in st[2]:
                    with (m.Default() if pats is None else m.Case(*pats)):
                        emit(m, dom, body, sigs)


def show_stmts(stmts):
    out = []
    for st in stmts:
        if st[0] == "assign":
            out.append(f"{R.show(st[1])}.eq({R.show(st[2])})")
        elif st[0] == "if":
            s = " ".join(f"{'If' if n == 0 else 'Elif'}({R.show(c)}){{{show_stmts(b)}}}" for n, (c, b) in enumerate(st[1]))
            if st[2] is not None:
                s += f" Else{{{show_stmts(st[2])}}}"
            out.append(s)
        else:
            out.append(f"Switch({R.show(st[1])}){{" + " ".join(
                f"{'Default' if p is None else 'Case' + repr(p)}{{{show_stmts(b)}}}" for p, b in st[2]) + "}")
    return "; ".join(out)


def inputs_of(stmts):
    acc = set()

    def term(t):
        acc.update(i for i in R.leaves(t) if i in INPUTS)
    for st in stmts:
        if st[0] == "assign":
            term(st[1]); term(st[2])
        elif st[0] == "if":
            for c, b in st[1]:
                term(c); acc.update(inputs_of(b))
            if st[2] is not None:
                acc.update(inputs_of(st[2]))
        else:
            term(st[1])
            for _p, b in st[2]:
                acc.update(inputs_of(b))
    return acc


def run_batch(task):
    mods, domain, *rest = task
    split = bool(rest and rest[0])     # each module term is two statements on disjoint bits: the first lives in submodule A, the second in B
    from amaranth.hdl import Module, Signal, Shape, ClockDomain, Cat
    warnings.simplefilter("ignore")
    out = {"cov": {"evaluations": 0, "modules": 0, "distinct_nontrivial": 0}, "samples": [], "violations": []}
    m = Module()
    cd = ClockDomain("sync")
    m.domains.sync = cd
    ins = {i: Signal(Shape(*sh), name=f"in{i}") for i, sh in INPUTS.items()}
    copies = []
    if split:
        sub_a, sub_b = Module(), Module()
        m.submodules.a = sub_a
        m.submodules.b = sub_b
    for n, stmts in enumerate(mods):
        sigs = dict(ins)
        for i, (w, sg, init) in DRIVEN.items():
            sigs[i] = Signal(Shape(w, sg), init=init, name=f"m{n}_{i}")
        try:
            if split:
                emit(sub_a, sub_a.d[domain], stmts[:1], sigs)
                emit(sub_b, sub_b.d[domain], stmts[1:], sigs)
            else:
                emit(m, "mixed" if domain == "mixed" else m.d[domain], stmts, sigs)
        except Exception as ex:
            out["violations"].append({"sig": f"build:{domain}:{show_stmts(stmts)}",
                                      "what": f"module rejected: {type(ex).__name__}: {ex}", "payload": {"stmts": stmts, "domain": domain, "split": split}})
            continue
        copies.append((stmts, sigs))
    keep = Signal(10)
    m.d.comb += keep.eq(Cat(*ins.values()))
    # driven signals that no statement assigns still have to exist
    frag = elaborate(m)
    used_inputs = set()
    for stmts in mods:
        used_inputs |= inputs_of(stmts)
    shapes = {i: sh for i, sh in INPUTS.items()}
    for i, (w, sg, init) in DRIVEN.items():
        shapes[i] = (w, sg)
    in_idx = sorted(INPUTS)
    in_cat = Cat(*[ins[i] for i in in_idx])
    in_w = [INPUTS[i][0] for i in in_idx]
    drv_idx = sorted(DRIVEN)
    out_cat = Cat(*[sigs[i] for _s, sigs in copies for i in drv_idx])
    tot_w = sum(DRIVEN[i][0] for i in drv_idx)
    u_cat = Cat(*[sigs[U] for _s, sigs in copies])
    if domain in ("sync", "mixed"):
        states = [tuple(DRIVEN[i][2] for i in drv_idx), (0, 0), (-1 & 15, -1), (0b1010, 2), (0b0011, -4)]
    else:
        states = [None]

    def body(ctx):
        varies = [set() for _ in copies]
        for st in states:
            if st is not None:
                packed1 = 0
                off = 0
                for i, v in zip(drv_idx, st):
                    packed1 |= R.bits_of(v, DRIVEN[i][0]) << off
                    off += DRIVEN[i][0]
                allst = 0
                for n in range(len(copies)):
                    allst |= packed1 << (n * tot_w)
                u_all = 0
                for n in range(len(copies)):
                    u_all |= R.bits_of(st[drv_idx.index(U)], DRIVEN[U][0]) << (n * DRIVEN[U][0])
            for vals in itertools.product(*[R.values_of(*INPUTS[i]) if i in used_inputs else [0] for i in in_idx]):
                packed, off = 0, 0
                for v, w in zip(vals, in_w):
                    packed |= R.bits_of(v, w) << off
                    off += w
                ctx.set(in_cat, packed)
                if st is not None:
                    if domain == "mixed":
                        ctx.set(u_cat, u_all)          # only u is a register here; t is combinational (or undriven: keeps its init)
                    else:
                        ctx.set(out_cat, allst)
                    ctx.set(cd.clk, 1)
                    ctx.set(cd.clk, 0)
                big = ctx.get(out_cat)
                cur = dict(zip(in_idx, vals))
                for n, (stmts, sigs) in enumerate(copies):
                    c = dict(cur)
                    if st is None:
                        nxt = {i: R.from_bits(DRIVEN[i][2], DRIVEN[i][0], DRIVEN[i][1]) for i in drv_idx}
                        for i in drv_idx:
                            c[i] = nxt[i]        # comb RHS never reads driven signals in this grammar
                        S.run_stmts(stmts, c, nxt, shapes)
                    elif domain == "mixed":
                        # t is combinational (init overridden), u is a register (previous value overridden); one control-flow
                        # structure, each domain sees only its own assignments
                        for i, v in zip(drv_idx, st):
                            c[i] = R.from_bits(v, DRIVEN[i][0], DRIVEN[i][1])
                        nxt = {T: R.from_bits(DRIVEN[T][2], DRIVEN[T][0], DRIVEN[T][1]), U: c[U]}
                        S.run_stmts(stmts, c, nxt, shapes, only=lambda a: stmt_domain(a) == "comb")
                        S.run_stmts(stmts, c, nxt, shapes, only=lambda a: stmt_domain(a) == "sync")
                    else:
                        for i, v in zip(drv_idx, st):
                            c[i] = R.from_bits(v, DRIVEN[i][0], DRIVEN[i][1])
                        nxt = {i: c[i] for i in drv_idx}
                        S.run_stmts(stmts, c, nxt, shapes)
                    out["cov"]["evaluations"] += 1
                    got = []
                    o = n * tot_w
                    for i in drv_idx:
                        w = DRIVEN[i][0]
                        got.append(R.from_bits(big >> o, w, DRIVEN[i][1]))
                        o += w
                    want = [nxt[i] for i in drv_idx]
                    varies[n].add(tuple(want))
                    if got != want and len(out["violations"]) < 30:
                        out["violations"].append({
                            "sig": f"{domain}:{show_stmts(stmts)}",
                            "what": f"{domain} module [{show_stmts(stmts)}] inputs {cur} state {st}: (t,u) = {got}, reference {want}",
                            "payload": {"stmts": stmts, "domain": domain, "split": split}})
        out["cov"]["distinct_nontrivial"] += sum(1 for s in varies if len(s) > 1)
    try:
        run_in_testbench(frag, body)
    except Exception as ex:
        # the simulator could not be built / crashed: bisect down to the offending module term
        if len(mods) == 1:
            out["violations"].append({"sig": f"sim-crash:{domain}:{show_stmts(mods[0])}",
                                      "what": f"simulating {domain} module [{show_stmts(mods[0])}] raises {type(ex).__name__}: {ex}",
                                      "payload": {"stmts": mods[0], "domain": domain}})
            return out
        half = len(mods) // 2
        a = run_batch((mods[:half], domain, split))
        b = run_batch((mods[half:], domain, split))
        for k, v in b["cov"].items():
            a["cov"][k] = a["cov"].get(k, 0) + v
        a["violations"] += b["violations"]
        a["samples"] = a["samples"][:1]
        return a
    out["cov"]["modules"] += len(copies)
    if mods:
        out["samples"].append({"domain": domain, "module": show_stmts(mods[len(mods) // 2])})
    return out


# ---------------------------------------------------------------- FSMs
def fsm_specs():
    """(n_states, init index or None, transitions {state: [(cond_input_value or None, next)]}, reset_less?)"""
    specs = []
    for n in (2, 3):
        for init in [None] + list(range(n)):
            for variant in range(4):
                trans = {}
                for s in range(n):
                    if variant == 0:
                        trans[s] = [(1, (s + 1) % n)]                     # advance when a == 1
                    elif variant == 1:
                        trans[s] = [(1, (s + 1) % n), (2, 0), (3, s)]      # If/Elif chain on input value
                    elif variant == 2:
                        trans[s] = [(None, (s + 2) % n)]                   # unconditional
                    else:
                        trans[s] = [(3, (n - 1 - s)), (None, s)] if s else [(0, 1)]
                specs.append((n, init, trans))
    return specs


def run_fsm(task):
    specs, depth = task
    from amaranth.hdl import Module, Signal, ClockDomain
    warnings.simplefilter("ignore")
    out = {"cov": {"evaluations": 0, "fsm_designs": 0, "fsm_sequences": 0}, "samples": [], "violations": []}
    for (n, init, trans) in specs:
        names = [f"S{k}" for k in range(n)]
        m = Module()
        cd = ClockDomain("sync")
        m.domains.sync = cd
        a = Signal(2)
        ongoing = Signal(n)
        cnt = Signal(3)
        kw = {} if init is None else {"init": names[init]}
        with m.FSM(**kw) as fsm:
            for s in range(n):
                with m.State(names[s]):
                    m.d.sync += cnt.eq(cnt + s + 1)
                    first = True
                    for val, nx in trans[s]:
                        if val is None:
                            if first:
                                m.next = names[nx]
                            else:
                                with m.Else():
                                    m.next = names[nx]
                        else:
                            with (m.If if first else m.Elif)(a == val):
                                m.next = names[nx]
                        first = False
        for s in range(n):
            m.d.comb += ongoing[s].eq(fsm.ongoing(names[s]))
        frag = elaborate(m)
        out["cov"]["fsm_designs"] += 1
        init_s = 0 if init is None else init

        def ref_next(s, av):
            for val, nx in trans[s]:
                if val is None or val == av:
                    return nx
            return s

        def body(ctx):
            # every input sequence of length `depth` over a in 0..3 plus a reset action (4), depth-first with state restore by replay
            for seq in itertools.product(range(5), repeat=depth):
                ctx.set(cd.rst, 1); ctx.set(cd.clk, 1); ctx.set(cd.clk, 0); ctx.set(cd.rst, 0)
                s, c = init_s, 0
                out["cov"]["fsm_sequences"] += 1
                for step, av in enumerate(seq):
                    og = ctx.get(ongoing)
                    out["cov"]["evaluations"] += 1
                    if og != (1 << s) or ctx.get(cnt) != c:
                        out["violations"].append({
                            "sig": f"fsm:n={n}:init={init}:trans={trans}",
                            "what": f"FSM n={n} init={init} trans={trans} after inputs {seq[:step]}: ongoing={og:#b} cnt={ctx.get(cnt)}, "
                                    f"reference state S{s} cnt={c}",
                            "payload": {"fsm": [n, init, {str(k): v for k, v in trans.items()}], "depth": depth}})
                        return
                    if av == 4:
                        ctx.set(cd.rst, 1); ctx.set(cd.clk, 1); ctx.set(cd.clk, 0); ctx.set(cd.rst, 0)
                        s, c = init_s, 0
                    else:
                        ctx.set(a, av); ctx.set(cd.clk, 1); ctx.set(cd.clk, 0)
                        c = (c + s + 1) & 7
                        s = ref_next(s, av)
        run_in_testbench(frag, body)
    out["samples"].append({"fsm": {"states": specs[0][0], "init": specs[0][1], "transitions": str(specs[0][2])}})
    return out


def nested_fsm_specs():
    """(outer states, inner states, inner state names equal to the outer ones?, outer state hosting the inner FSM, inner init index or None)"""
    return [(no, ni, same, host, iinit) for no in (2, 3) for ni in (2, 3) for same in (True, False) for host in (0, no - 1) for iinit in (None, ni - 1)]


def run_nested_fsm(task):
    """an FSM nested in a State of another FSM: `m.next` drives the FSM whose State block it is written in; the inner FSM only runs
    (and only changes state) while the hosting outer state is selected"""
    specs, depth = task
    from amaranth.hdl import Module, Signal, ClockDomain
    warnings.simplefilter("ignore")
    out = {"cov": {"evaluations": 0, "nested_fsm_designs": 0, "fsm_sequences": 0, "nested_fsm_both_move": 0}, "samples": [], "violations": []}
    for (no, ni, same, host, iinit) in specs:
        onames = [f"S{k}" for k in range(no)]
        inames = [f"S{k}" for k in range(ni)] if same else [f"T{k}" for k in range(ni)]
        try:
            m = Module()
            cd = ClockDomain("sync")
            m.domains.sync = cd
            a = Signal(2)
            og_o = Signal(no)
            og_i = Signal(ni)
            cnt = Signal(3)
            kw = {} if iinit is None else {"init": inames[iinit]}
            with m.FSM(name="outer") as outer:
                for s in range(no):
                    with m.State(onames[s]):
                        if s == host:
                            with m.FSM(name="inner", **kw) as inner:
                                for t in range(ni):
                                    with m.State(inames[t]):
                                        m.d.sync += cnt.eq(cnt + t + 1)
                                        with m.If(a[0]):
                                            m.next = inames[(t + 1) % ni]
                        with m.If(a[1]):
                            m.next = onames[(s + 1) % no]
            for s in range(no):
                m.d.comb += og_o[s].eq(outer.ongoing(onames[s]))
            for t in range(ni):
                m.d.comb += og_i[t].eq(inner.ongoing(inames[t]))
            frag = elaborate(m)
        except Exception as ex:
            out["violations"].append({"sig": f"nested-fsm:{no},{ni},same={int(same)},host={host},init={iinit}:build-raises",
                                      "what": f"nested FSM {(no, ni, same, host, iinit)} cannot be built: {type(ex).__name__}: {ex}",
                                      "payload": {"nested_fsm": [no, ni, same, host, iinit], "depth": depth}})
            continue
        out["cov"]["nested_fsm_designs"] += 1
        i0 = 0 if iinit is None else iinit

        def body(ctx):
            for seq in itertools.product(range(5), repeat=depth):
                ctx.set(cd.rst, 1); ctx.set(cd.clk, 1); ctx.set(cd.clk, 0); ctx.set(cd.rst, 0)
                so, si, c = 0, i0, 0
                out["cov"]["fsm_sequences"] += 1
                for step, av in enumerate(seq):
                    got = (ctx.get(og_o), ctx.get(og_i), ctx.get(cnt))
                    out["cov"]["evaluations"] += 1
                    if got != (1 << so, 1 << si, c):
                        out["violations"].append({
                            "sig": f"nested-fsm:{no},{ni},same={int(same)},host={host},init={iinit}",
                            "what": f"nested FSM outer={no} states, inner={ni} states in outer state S{host} (inner names {inames}, init {iinit}) after inputs "
                                    f"{seq[:step]}: outer ongoing={got[0]:#b} inner ongoing={got[1]:#b} cnt={got[2]}; reference outer S{so}, inner #{si}, cnt={c}",
                            "payload": {"nested_fsm": [no, ni, same, host, iinit], "depth": depth}})
                        return
                    if av == 4:
                        ctx.set(cd.rst, 1); ctx.set(cd.clk, 1); ctx.set(cd.clk, 0); ctx.set(cd.rst, 0)
                        so, si, c = 0, i0, 0
                    else:
                        ctx.set(a, av); ctx.set(cd.clk, 1); ctx.set(cd.clk, 0)
                        if so == host:
                            c = (c + si + 1) & 7
                            if av & 1:
                                si = (si + 1) % ni
                                out["cov"]["nested_fsm_both_move"] += (av >> 1) & 1
                        if av & 2:
                            so = (so + 1) % no
        try:
            run_in_testbench(frag, body)
        except Exception as ex:
            out["violations"].append({"sig": f"nested-fsm:{no},{ni},same={int(same)},host={host},init={iinit}:raises",
                                      "what": f"nested FSM {(no, ni, same, host, iinit)}: {type(ex).__name__}: {ex}",
                                      "payload": {"nested_fsm": [no, ni, same, host, iinit], "depth": depth}})
    return out


def _dispatch(t):
    if t[0] == "nfsm":
        return run_nested_fsm(t[1])
    return run_fsm(t[1]) if t[0] == "fsm" else run_batch(t[1])


def run(rep):
    mods = module_terms(rep.quick)
    # group by the set of inputs a module reads: only those are enumerated (the others are held at 0)
    groups = {}
    for mo in mods:
        groups.setdefault(tuple(sorted(inputs_of(mo))), []).append(mo)
    tasks = []
    for key, ms in groups.items():
        bits = sum(INPUTS[i][0] for i in key)
        size = max(10, 150 >> max(0, bits - 6))
        tasks += [("b", (ch, "comb")) for ch in chunks(ms, size)]
        sync_ms = ms if not rep.quick else ms[::3]
        tasks += [("b", (ch, "sync")) for ch in chunks(sync_ms, max(5, size // 3))]
    mixed = mixed_terms()
    rep.setcov("mixed_domain_module_terms", len(mixed))
    mgroups = {}
    for mo in mixed:
        mgroups.setdefault(tuple(sorted(inputs_of(mo))), []).append(mo)
    for key, ms in mgroups.items():
        bits = sum(INPUTS[i][0] for i in key)
        tasks += [("b", (ch, "mixed")) for ch in chunks(ms, max(5, 100 >> max(0, bits - 6)))]
    sp = split_terms()
    rep.setcov("split_fragment_module_terms", len(sp))
    sgroups = {}
    for mo in sp:
        sgroups.setdefault(tuple(sorted(inputs_of(mo))), []).append(mo)
    for key, ms in sgroups.items():
        for dom in ("sync", "comb"):
            # a combinational right-hand side must not read the signals the module drives (that would be a loop)
            sel = ms if dom == "sync" else [mo for mo in ms if not reads_driven(mo)]
            tasks += [("b", (ch, dom, True)) for ch in chunks(sel, 12)]
    specs = fsm_specs()
    for ch in chunks(specs, 2):
        tasks.append(("fsm", (ch, rep.pick(4, 6))))
    for ch in chunks(nested_fsm_specs(), 2):
        tasks.append(("nfsm", (ch, rep.pick(4, 6))))
    tasks = rotate(tasks, rep.seed)
    for part in pmap(_dispatch, tasks, rep.procs):
        rep.merge(part)
    rep.setcov("module_terms", len(mods))
    rep.setcov("rule", "module terms: every single If/Elif/Else and Switch/Case/Default construct (int, multi, don't-care, unreachable, empty-pattern, "
               "after-default, zero-width test) with bodies from a pool of 15 assignments (slices, parts running off the end, Cat, Array element, "
               "sign reinterpretation, nested part/slice; RHS narrower/wider/signed), all ordered pairs of assignments, all 2-level nestings over a "
               "sub-pool; comb: x all 1024 input valuations; sync: x 5 register states x all inputs (pointwise transition check); FSMs: 2-3 states, "
               "every init choice, 4 transition shapes, every input/reset sequence up to the depth bound; FSMs nested in a State of another FSM (2-3 x 2-3 states, "
               "inner state names equal to / distinct from the outer ones, hosted in the first / last outer state, both moving on the same input), same "
               "sequences. non-trivial: outputs vary with inputs")
    rep.setcov("exhaustive", True)
    rep.require(rep.cov.get("modules", 0) > 500 and rep.cov.get("fsm_designs", 0) >= 10 and rep.cov.get("nested_fsm_designs", 0) >= 16
                and rep.cov.get("nested_fsm_both_move", 0) > 0, "modules, FSMs and nested FSMs enumerated")


def _tup(x):
    return tuple(_tup(y) for y in x) if isinstance(x, list) else x


def replay(payload):
    if "stmts" in payload:
        def fix(st):
            st = _tup(st)
            return st
        stmts = [_unjson(s) for s in payload["stmts"]]
        out = run_batch(([stmts], payload["domain"], payload.get("split", False)))
        return [v["what"] for v in out["violations"]][:5]
    if "nested_fsm" in payload:
        out = run_nested_fsm(([tuple(payload["nested_fsm"])], payload["depth"]))
        return [v["what"] for v in out["violations"]][:5]
    if "fsm" in payload:
        n, init, trans = payload["fsm"]
        trans = {int(k): [tuple(x) for x in v] for k, v in trans.items()}
        out = run_fsm(([(n, init, trans)], payload["depth"]))
        return [v["what"] for v in out["violations"]][:5]
    return []


def _unjson(st):
    """statements keep lists for bodies / branches and tuples for terms"""
    k = st[0]
    if k == "assign":
        return ("assign", _tup(st[1]), _tup(st[2]))
    if k == "if":
        return ("if", [(_tup(c), [_unjson(b) for b in body]) for c, body in st[1]], None if st[2] is None else [_unjson(b) for b in st[2]])
    if k == "switch":
        return ("switch", _tup(st[1]), [(None if p is None else tuple(p), [_unjson(b) for b in body]) for p, body in st[2]])
    raise ValueError(st)
