"""C03 Clock domains, resets and control inserters behave as specified -- full reachable graph (BFS).

One parametric design (two modules + a memory, see `C03Spec.build`) is instantiated for every combination of
clock-domain kinds and every nesting of ResetInserter / EnableInserter / DomainRenamer inside the bounds; the real
simulated design is explored breadth-first in product with the register-level reference model of
vf/ref/c03_model.py.  State = all registers + memory rows + read-port data + clock levels + levels of the
asynchronous resets.  An action first drives a complete valuation of the synchronous inputs (data bit, inserted
controls, synchronous domain resets) and then, in a separate ctx.set, makes ONE level event: toggles a non-empty
subset of the clocks simultaneously, or flips one asynchronous reset.  After every event the complete state of
the implementation is compared with the model's prediction.
"""
import itertools

from ..core.pool import pmap, rotate
from ..explore.bfs import explore, replay_path
from ..sim.driver import elaborate, walk_state
from ..ref.c03_model import Model, WRAPPERS, KINDS, CONTROLS

ID = "C03"
LEVEL = "model_checking"


# ---------------------------------------------------------------- state access
class Sys3:
    """State access for the explorer.  state = (packed registers, memory rows, packed levels); levels = clock
    levels followed by the levels of the asynchronous resets.  load() restores the levels first (whatever edge or
    asynchronous reset that provokes is overwritten afterwards), then registers and memory rows."""
    def __init__(self, frag, regs, md, clocks, arsts, sync_inputs, obs):
        from amaranth.hdl import Cat
        self.frag = frag
        self._regs_obs = Cat(*regs, obs)         # obs: combinational observation, read together with the registers
        self._regw = sum(len(r) for r in regs)
        self.last_obs = None
        self._cache = None
        self._last_in = 0                 # all inputs are 0 in a fresh simulator
        self.regs, self.md = list(regs), md
        self.clocks, self.arsts, self.sync_inputs = list(clocks), list(arsts), list(sync_inputs)
        self._regs = Cat(*self.regs)
        self._clk = Cat(*self.clocks)
        self._lv = Cat(*self.clocks, *self.arsts)
        self._in = Cat(*self.sync_inputs)
        self.rows = [md[i] for i in range(md.depth)]
        self.ctx = None
        self._known_rows = None

    def read(self):
        """the explorer reads the state right after step() did: no need to evaluate everything twice"""
        return self._cache if self._cache is not None else self.fresh_read()

    def fresh_read(self):
        g = self.ctx.get
        rows = tuple(int(g(r)) for r in self.rows)
        self._known_rows = rows
        x = g(self._regs_obs)
        self.last_obs = x >> self._regw
        self._cache = (x & ((1 << self._regw) - 1), rows, g(self._lv))
        return self._cache

    def load(self, state):
        regs, rows, lv = state
        self._cache = None
        s = self.ctx.set
        s(self._lv, lv)
        s(self._regs, regs)
        known = self._known_rows
        for k, v in enumerate(rows):
            if known is None or known[k] != v:
                s(self.rows[k], v)
        # a write provoked by restoring the levels may have touched any row: make sure
        g = self.ctx.get
        for k, v in enumerate(rows):
            if int(g(self.rows[k])) != v:
                s(self.rows[k], v)
        self._known_rows = rows


# ---------------------------------------------------------------- one design = one spec
def cfg_tag(cfg):
    doms = ",".join(f"{n}:{e}/{r}" for n, (e, r) in sorted(cfg["doms"].items(), reverse=True))
    return f"doms[{doms}];top[{','.join(cfg['top'])}];sub[{','.join(cfg['sub'])}]" + (";b" if cfg.get("logic_b") else "") + \
        (";ports=" + cfg["ports"] if cfg.get("ports", "n") != "n" else "") + (";order=ba" if cfg.get("order", "ab") == "ba" else "") + \
        (";rp=" + cfg["rpdom"] if cfg.get("rpdom", "sync") != "sync" else "")


class C03Spec:
    """cfg: {"doms": {"sync": [edge, rkind], "other": [edge, rkind]?}, "top": [wrappers applied to the core
    module, innermost first], "sub": [wrappers applied to the leaf submodule], "logic_b": bool}"""
    def __init__(self, cfg):
        self.cfg = {"doms": {k: tuple(v) for k, v in cfg["doms"].items()}, "top": list(cfg["top"]),
                    "sub": list(cfg["sub"]), "logic_b": bool(cfg.get("logic_b")), "ports": cfg.get("ports", "n"),
                    "order": cfg.get("order", "ab"), "rpdom": cfg.get("rpdom", "sync")}
        self.model = Model(self.cfg)
        mdl = self.model
        n_in = len(mdl.sync_inputs)
        events = [("c", mask) for mask in range(1, 1 << len(mdl.dom_names))] + [("r", k) for k in range(len(mdl.arst_doms))]
        self.actions = [(inp, kind, arg) for inp in range(1 << n_in) for (kind, arg) in events]

    def describe(self):
        return {"doms": {k: list(v) for k, v in self.cfg["doms"].items()}, "top": self.cfg["top"], "sub": self.cfg["sub"],
                "logic_b": self.cfg["logic_b"], "ports": self.cfg["ports"], "order": self.cfg["order"], "rpdom": self.cfg["rpdom"]}

    # -- the real design, through the public API only
    def build(self):
        from amaranth.hdl import (Module, ClockDomain, Signal, Elaboratable, ResetInserter, EnableInserter, DomainRenamer,
                                  ClockSignal, ResetSignal, Cat, signed)
        from amaranth.lib.memory import Memory
        cfg, mdl = self.cfg, self.model
        two = "other" in cfg["doms"]
        cds = {}
        for name, (edge, rk) in cfg["doms"].items():
            cds[name] = ClockDomain(name, clk_edge=edge, async_reset=(rk == "async"), reset_less=(rk == "none"))
        ini = mdl.inits
        d = Signal(name="d")
        ctl = {n: Signal(name=n) for n in CONTROLS}
        cnt = Signal(2, init=ini["cnt"], name="cnt")
        # reset_less and only partially driven: bit 1 is never assigned
        rl = Signal(2, init=ini["rl"] | (ini["rl1"] << 1), reset_less=True, name="rl")
        rw = Signal(1, init=ini["rw"], reset_less=True, name="rw")
        rs = Signal(2, init=ini["rs0"] | (ini["rs1"] << 1), reset_less=True, name="rs")   # reset_less AND split between two domains
        # signed on purpose: its sign bit belongs to another module / domain than bit 0
        sp = Signal(signed(2), init=ini["sp0"] | (ini["sp1"] << 1), name="sp")
        cntb = Signal(2, init=ini.get("cntb", 0), name="cntb")
        rlb = Signal(1, init=ini.get("rlb", 0), reset_less=True, name="rlb")
        sq = Signal(2, init=ini["sq0"] | (ini["sq1"] << 1), name="sq")      # split between two domains inside ONE module
        obs = Signal(2, name="obs")
        box = {}
        logic_b = cfg["logic_b"]

        def wrapper(w):
            kind, named = WRAPPERS[w]
            if kind == "rename":
                return DomainRenamer("other") if w == "DR" else DomainRenamer(dict(named))
            cls = ResetInserter if kind == "reset" else EnableInserter
            if w in ("R1", "E1"):
                return cls(ctl[named["sync"]])           # short form: the sync domain only
            return cls({dn: ctl[c] for dn, c in named.items() if dn in cfg["doms"]})

        def wrap(e, ws):
            for w in ws:
                e = wrapper(w)(e)
            return e

        class Leaf(Elaboratable):
            def elaborate(self, platform):
                m = Module()
                m.d["other" if two else "sync"] += [sp[1].eq(~sp[1])]
                m.submodules.mem = mem = Memory(shape=1, depth=2, init=[ini["m0"], ini["m1"]])
                wp = mem.write_port(domain="sync")
                m.d.comb += [wp.addr.eq(cnt[0]), wp.data.eq(d), wp.en.eq(1)]
                box["rdata"] = []
                if "n" in cfg["ports"]:
                    rp = mem.read_port(domain=cfg["rpdom"])
                    m.d.comb += rp.addr.eq(rl[0])
                    box["rdata"].append(rp.data)
                if "t" in cfg["ports"]:
                    tp = mem.read_port(domain="sync", transparent_for=(wp,))
                    m.d.comb += tp.addr.eq(d)         # a free input: the address moves while an inserted enable is low
                    box["rdata"].append(tp.data)
                # late-bound clock / reset of whatever domain this module's "sync" ends up being
                m.d.comb += obs.eq(Cat(ClockSignal("sync"), ResetSignal("sync", allow_reset_less=True)))
                return m

        class Core(Elaboratable):
            def elaborate(self, platform):
                m = Module()
                def in_other():
                    m.d.other += [cntb.eq(cntb + 1), rlb.eq(~rlb), sq[1].eq(~sq[1]), rs[1].eq(~rlb)]
                if logic_b and cfg["order"] == "ba":      # this module uses m.d.other before m.d.sync
                    in_other()
                # (same behaviour as cnt+1 / ~rl / ~sp[0]; written through If/Else and a slice of a Cat target
                # so that the inserters have to find the driven bits through control flow and compound targets)
                with m.If(cnt[0]):
                    m.d.sync += cnt.eq(cnt + 1)
                with m.Else():
                    m.d.sync += cnt.eq(cnt + 1)
                m.d.sync += Cat(rl[0], sp)[0:2].eq(~Cat(rl[0], sp)[0:2])
                m.d.sync += rw.eq(~rl[0])
                if logic_b:
                    m.d.sync += [sq[0].eq(~sq[0]), rs[0].eq(~rl[0])]
                    if cfg["order"] == "ab":
                        in_other()
                m.submodules.leaf = wrap(Leaf(), cfg["sub"])
                return m

        top = Module()
        for name in mdl.dom_names:
            top.domains += cds[name]
        top.submodules.core = wrap(Core(), cfg["top"])
        frag = elaborate(top)
        regs = [cnt, rl, sp, rw] + ([cntb, rlb, sq, rs] if logic_b else []) + box["rdata"]
        found, mems = walk_state(frag)
        clocks = [cds[n].clk for n in mdl.dom_names]
        arsts = [cds[n].rst for n in mdl.arst_doms]
        by_name = {"d": d, **ctl}
        sync_inputs = [cds[n[4:]].rst if n.startswith("rst_") else by_name[n] for n in mdl.sync_inputs]
        inputs = {id(s) for s in clocks + arsts + sync_inputs + [r for r in (c.rst for c in cds.values()) if r is not None]}
        hidden = [s for s in found if id(s) not in {id(r) for r in regs} and id(s) not in inputs]
        if hidden or len(mems) != 1:
            raise RuntimeError(f"state vector of the design is not the modelled one: extra {hidden!r}, memories {len(mems)}")
        return Sys3(frag, regs, mems[0], clocks, arsts, sync_inputs, obs)

    def model_init(self, sysm):
        return self.model.initial()

    def step(self, sysm, m, a):
        inp, kind, arg = a
        mdl = self.model
        ctx = sysm.ctx
        if sysm._last_in != inp:          # (only step() ever drives these inputs; load() leaves them alone)
            ctx.set(sysm._in, inp)
            sysm._last_in = inp
        allowed, flags, lv2 = mdl.step(m, inp, kind, arg)
        # the single level event (never together with the data inputs)
        if kind == "c":
            ctx.set(sysm._clk, lv2 & mdl.clk_mask)
        else:
            ctx.set(sysm.arsts[arg], (lv2 >> (mdl.nclk + arg)) & 1)
        got = sysm.fresh_read()
        want_obs = mdl.expected_obs(inp, lv2)
        if got in allowed and sysm.last_obs == want_obs:
            return got, [], flags
        errs = mdl.explain(m, got, allowed, inp, kind, arg) if got not in allowed else []
        if sysm.last_obs != want_obs:
            errs.append(f"obs({mdl.obs_dom}):{mdl.event_name(m, kind, arg)}:clock/reset-signal got {sysm.last_obs:02b}, model {want_obs:02b} "
                        f"(Cat(ClockSignal, ResetSignal) of the leaf's sync domain, which is finally '{mdl.obs_dom}')")
        return got, errs, flags          # continue from the implementation's state


# ---------------------------------------------------------------- the bounded space of designs
def nestings(alphabet, total):
    """every (sub, top) pair of wrapper sequences with len(sub)+len(top) <= total"""
    out = []
    for n in range(total + 1):
        for seq in itertools.product(alphabet, repeat=n):
            for k in range(n + 1):
                out.append((list(seq[:k]), list(seq[k:])))
    return out


def configs(rep):
    out = []
    one = ["R1", "R2", "E1", "E2"]
    full = one + ["DR"]
    # family M (first: its graphs are the largest): inserters with a DISTINCT control per domain (R3, E3) around ONE module
    # that holds registers of both domains and a signal split between them
    none2 = {"sync": ("pos", "none"), "other": ("neg", "none")}
    none_sync = {"sync": ("pos", "none"), "other": ("neg", "sync")}
    pair0 = {"sync": ("pos", "sync"), "other": ("neg", "async")}
    if rep.quick:
        for seq in (["R3", "E3"], ["R3"], ["E3"]):
            out.append({"doms": none2, "top": seq, "sub": [], "logic_b": True})
        for w in ("R3", "E3"):
            out.append({"doms": none_sync, "top": [w], "sub": [], "logic_b": True})
    else:
        for pair in (pair0, none_sync, none2):
            for sub, top in sorted(nestings(["R3", "E3"], 2), key=lambda st: (-len(st[0] + st[1]), -len(st[0]))):
                if sub or top:
                    out.append({"doms": pair, "top": top, "sub": sub, "logic_b": True})
        for w in ("R3", "E3"):
            for o in full + ["DX"]:
                out.append({"doms": none2, "top": [w, o], "sub": [], "logic_b": True})
                out.append({"doms": none2, "top": [o, w], "sub": [], "logic_b": True})
    # family D: every combination of domain kinds, no wrappers
    for ka in KINDS:
        out.append({"doms": {"sync": ka}, "top": [], "sub": [], "logic_b": False, "ports": "nt"})
        for kb in KINDS:
            out.append({"doms": {"sync": ka, "other": kb}, "top": [], "sub": [], "logic_b": True})
    # short-form ResetInserter(r1) over the two-domain core (its reset_less signal rs is split between the two domains)
    for top in (["R1"], ["R1", "E1"], ["E1", "R1"], ["R1", "DR"]):
        out.append({"doms": none2, "top": top, "sub": [], "logic_b": True})
    # family R: renames whose target already carries statements in the same module (DR over the two-domain core), and
    # renames that merge two source domains into a third one (DM), for both orders of first use of the domains in the
    # module, alone and nested with inserters; parent/child merges with the memory ports and the split signal
    none3 = dict(none2, tgt=("pos", "none"))
    for order in ("ab", "ba"):
        fam = [(none2, ["DR"], []), (none_sync, ["DR"], []), (pair0, ["DR"], [])]
        fam += [(none2, t, []) for t in (["R2", "DR"], ["DR", "R2"], ["E2", "DR"], ["DR", "E2"], ["R3", "DR"], ["E3", "DR"])]
        fam += [(none3, ["DM"], []), (none3, [], ["DM"]), (none3, ["DM"], ["E1"]), (none3, ["DR", "DM"], [])]
        fam += [(none3, t, []) for t in (["R2", "DM"], ["DM", "R2"], ["E2", "DM"], ["DM", "E2"])]
        # (per-domain controls inside a merge: the two largest graphs; quick takes one order of each)
        fam += [(none3, t, []) for t, o in ((["R3", "DM"], "ab"), (["E3", "DM"], "-")) if o == order or not rep.quick]
        if not rep.quick:
            for kt in KINDS:
                d3 = dict(none2, tgt=kt)
                fam += [(d3, t, []) for t in (["DM"], ["R2", "DM"], ["E2", "DM"], ["DM", "E2"])]
            fam += [(dict(pair0, tgt=("pos", "sync")), ["DM"], []), (dict(pair0, tgt=("neg", "async")), ["E2", "DM"], [])]
        for doms, top, sub in fam:
            c = {"doms": doms, "top": top, "sub": sub, "logic_b": True, "order": order}
            if c not in out:
                out.append(c)
    for top in (["DM"], ["R2", "DM"], ["E2", "DM"], ["DM", "E2"]):
        out.append({"doms": none3, "top": top, "sub": [], "logic_b": False, "ports": "nt"})
    # family X: renamer maps that are not idempotent -- the exchange DX (sync <-> other) and the chain sync -> other -> tgt
    # listed in both orders (DC, DCr) -- at the top and at the submodule holding the memory, alone and nested with
    # inserters; write + transparent read port in sync, plain read port in sync / in other
    for rp in ("sync", "other"):
        fam = [(none2, [], []), (pair0, [], []), (pair0, ["DX"], []), (pair0, [], ["DX"])]
        fam += [(none2, t, s_) for t, s_ in ((["DX"], []), ([], ["DX"]), (["R2", "DX"], []), (["DX", "R2"], []), (["E2", "DX"], []),
                                             (["DX", "E2"], []), (["E1"], ["DX"]), (["R1"], ["DX"]))]
        for w in ("DC", "DCr"):
            fam += [(none3, t, s_) for t, s_ in (([w], []), ([], [w]), (["R2", w], []), ([w, "E2"], []), (["E1"], [w]))]
        for doms, top, sub in fam:
            for lb in ((False,) if rep.quick else (False, True)):
                c = {"doms": doms, "top": top, "sub": sub, "logic_b": lb, "ports": "nt", "rpdom": rp}
                if c not in out:
                    out.append(c)
    # family W: every nesting of wrappers at the top / at the submodule; the memory has the ordinary and the transparent
    # read port ("nt"); the transparent one is addressed by the free input d
    for sub, top in nestings(full, rep.pick(2, 3)):
        if sub or top:
            out.append({"doms": pair0, "top": top, "sub": sub, "logic_b": False, "ports": "nt"})
    if not rep.quick:
        # more domain pairs, and the swapping renamer DX, with <= 2 wrappers
        pairs = (pair0, {"sync": ("neg", "async"), "other": ("pos", "none")}, {"sync": ("pos", "none"), "other": ("pos", "sync")},
                 {"sync": ("neg", "sync"), "other": ("neg", "sync")})
        for pair in pairs:
            for sub, top in nestings(full + ["DX"], 2):
                c = {"doms": pair, "top": top, "sub": sub, "logic_b": False, "ports": "nt"}
                if (sub or top) and c not in out:
                    out.append(c)
        # single-domain designs of every kind under the inserters
        for ka in KINDS:
            for sub, top in nestings(one, 2):
                if sub or top:
                    out.append({"doms": {"sync": ka}, "top": top, "sub": sub, "logic_b": False, "ports": "nt"})
    return out


def _raised_inside_amaranth(e):
    import traceback
    tb = traceback.extract_tb(e.__traceback__)
    return bool(tb) and ("/amaranth/" in tb[-1].filename or tb[-1].filename == "<string>")


def run_config(task):
    cfg, replay_n = task
    spec = C03Spec(cfg)
    try:
        res = explore(spec, procs=1, replay_n=replay_n, cap_states=400_000)
    except Exception as e:
        if not _raised_inside_amaranth(e):
            raise
        # elaborating or simulating a legal design must not raise
        return {"cfg": spec.describe(), "tag": cfg_tag(spec.cfg), "states": 0, "transitions": 0, "depth": 0, "flags": [],
                "capped": False, "validated": 0, "wall": 0.0, "actions": len(spec.actions), "errors": [], "mismatch": [],
                "inputs": spec.model.sync_inputs, "clocks": spec.model.dom_names, "crash": f"{type(e).__name__}: {e}"[:300],
                "crash_cls": type(e).__name__}
    out = {"cfg": spec.describe(), "tag": cfg_tag(spec.cfg), "states": res.states, "transitions": res.transitions,
           "depth": res.max_depth, "flags": sorted(res.flags), "capped": res.capped, "validated": res.traces_validated,
           "wall": round(res.wall, 2), "actions": len(spec.actions), "errors": [], "mismatch": [],
           "inputs": spec.model.sync_inputs, "clocks": spec.model.dom_names}
    for errs, path in res.errors:
        out["errors"].append({"errs": errs, "path": [list(spec.actions[i]) for i in path]})
    for path, want, got in res.replay_mismatch[:3]:
        out["mismatch"].append({"path": [list(spec.actions[i]) for i in path], "bfs": repr(want), "replayed": repr(got)})
    return out


NEED = ["active_edge", "inactive_edge", "simultaneous_active_edges", "other_domain_edge_only", "negedge_active",
        "domain_reset_at_edge", "reset_less_signal_kept_under_domain_reset", "async_reset_rise", "async_reset_fall",
        "async_rise_leaves_reset_less", "async_rise_leaves_memory", "edge_under_async_reset",
        "inserted_reset_applied", "inserted_reset_frozen_by_outer_enable", "inserted_reset_not_frozen_by_inner_enable",
        "inserted_reset_skips_reset_less", "two_resets_or", "two_enables_and", "enable_freezes_update",
        "domain_reset_overrides_enable", "mem_write", "mem_write_gated_by_enable", "mem_read", "mem_read_gated_by_enable",
        "mem_ports_renamed", "renamed_logic_clocked_by_target", "partial_signal_reset", "reset_less_domain_edge",
        "per_domain_reset_applied", "per_domain_enable_freezes", "idle_domain_reset_control_asserted",
        "idle_domain_enable_control_deasserted", "transparent_read", "transparent_read_sees_same_edge_write",
        "transparent_read_gated_by_enable", "gated_transparent_read_would_change", "gated_read_would_change",
        "partially_driven_reset_less_not_init_under_inserted_reset", "partially_driven_reset_less_not_init_under_domain_reset",
        "rename_exchange", "rename_chain", "rename_chain_reverse_listing", "read_port_in_another_domain_than_write_port",
        "cross_domain_read_and_write_same_instant",
        "rename_onto_populated_domain_same_module:ab", "rename_onto_populated_domain_same_module:ba",
        "merge_two_sources_same_module:ab", "merge_two_sources_same_module:ba", "merge_sources_of_parent_and_child"]


def run(rep):
    cfgs = configs(rep)
    replay_n = rep.pick(3, 8)
    # largest graphs first (balance of the pool); the seed only rotates
    cost = lambda c: len(C03Spec(c).actions) * (4 if c.get("logic_b") else 1)
    cfgs = sorted(cfgs, key=cost, reverse=True)
    tasks = rotate([(c, replay_n) for c in cfgs], rep.seed)
    allflags = set()
    for r in pmap(run_config, tasks, rep.procs):
        rep.add("states", r["states"])
        rep.add("transitions", r["transitions"])
        rep.add("traces_validated_against_impl", r["validated"])
        rep.add("designs", 1)
        rep.add("designs_with_wrappers" if (r["cfg"]["top"] or r["cfg"]["sub"]) else "designs_domain_kinds_only", 1)
        if "t" in r["cfg"].get("ports", "n"):
            rep.add("designs_with_transparent_read_port", 1)
        if any(f.startswith(("rename_exchange", "rename_chain")) for f in r["flags"]):
            rep.add("designs_with_exchange_or_chain_renames", 1)
        if any(f.startswith(("rename_onto_populated", "merge_")) for f in r["flags"]):
            rep.add("designs_with_merging_renames", 1)
        if {"R3", "E3"} & set(r["cfg"]["top"] + r["cfg"]["sub"]):
            rep.add("designs_with_per_domain_controls", 1)
        allflags.update(r["flags"])
        if r["capped"]:
            rep.add("capped_designs", 1)
        tag = r["tag"]
        if r.get("crash"):
            rep.add("designs_crashed", 1)
            rep.violation(f"{tag}:crash:{r['crash_cls']}", f"{tag}: elaborating / simulating the design raised {r['crash']}",
                          {"cfg": r["cfg"], "path": [], "crash": True})
        for e in r["errors"]:
            first = e["errs"][0]
            rep.violation(f"{tag}:{first.split(' got ')[0]}", f"{tag}: {e['errs']} after actions (valuation of {r['inputs']} packed LSB first, "
                          f"event c=toggle clock mask {r['clocks']} / r=flip async reset #, arg) {e['path']}", {"cfg": r["cfg"], "path": e["path"]})
        for mm in r["mismatch"]:
            rep.violation(f"{tag}:replay-mismatch", f"{tag}: state reached by BFS state injection differs from replay from reset: {mm}",
                          {"cfg": r["cfg"], "path": mm["path"]})
        rep.sample({"design": tag, "states": r["states"], "transitions": r["transitions"], "actions_per_state": r["actions"],
                    "bfs_depth": r["depth"], "wall_s": r["wall"]}, limit=40)
    rep.setcov("exhaustive", rep.cov.get("capped_designs", 0) == 0)
    rep.setcov("flags_seen", sorted(allflags))
    rep.setcov("wrapper_alphabet", {k: f"{v[0]} {v[1]}" for k, v in WRAPPERS.items()})
    rep.setcov("rule", "for every design: full reachable product graph of (real simulated registers, memory rows, read-port data, "
               "clock levels, asynchronous-reset levels) x register-level model (memory: write port + non-transparent sync read port; in the "
               "single-domain and all wrapper designs also a read port transparent for the write port, addressed by the data input); every state expanded with every valuation of "
               "{data bit, inserted controls, synchronous domain resets} followed by every single level event (toggle of any "
               "non-empty subset of clocks at once | flip of one asynchronous reset); complete state compared after every event. "
               "Designs: all 6 single-domain and all 36 two-domain kind combinations (pos/neg x sync/async/reset-less) without "
               "wrappers; exchanging (sync<->other) and chaining (sync->other->tgt, both listing orders) DomainRenamer maps at the top "
               "and at the memory's module, alone and with inserters, plain read port in the write port's domain / the other one; "
               "DomainRenamer maps onto a domain that already has statements in the same module and maps merging two "
               "source domains into a third one (same module, both orders of first use; parent/child), alone and nested with "
               "inserters; inserters with a distinct control per domain (R3, E3) around one module holding registers of both "
               "domains and a split signal: " + rep.pick("R3, E3 and [R3,E3] over two reset-less domains, single ones over a "
               "reset-less + sync-reset pair", "every (submodule, top) nesting of <= 2 over 3 domain pairs and every pair with one other wrapper") + "; "
               + rep.pick(
                   "every (submodule, top) nesting of <= 2 wrappers from {R1,R2,E1,E2,DR} over the domain pair sync=pos/sync-reset, "
                   "other=neg/async-reset",
                   "every (submodule, top) nesting of <= 3 wrappers from {R1,R2,E1,E2,DR} over the domain pair sync=pos/sync-reset, "
                   "other=neg/async-reset; every nesting of <= 2 wrappers from {R1,R2,E1,E2,DR,DX} over 4 domain pairs; every nesting "
                   "of <= 2 inserters over all 6 single-domain kinds"))
    if not rep.cov.get("designs_crashed"):      # (a design that raised is already a violation; its graph is missing)
        for need in NEED:
            rep.require(need in allflags, f"antecedent '{need}' never exercised")
    rep.assume("state injection through ctx.set is validated by replaying shortest paths from reset on fresh simulators")
    rep.assume("the data register of a synchronous read port may either behave normally or take its initial value when a reset "
               "(domain or inserted) applies to its domain: the statement and docs/stdlib/memory.rst do not say which")
    rep.assume("a read port and a write port of DIFFERENT domains hitting the same row in the very same instant (simultaneous edges): "
               "the read may return the old or the new contents")
    rep.assume("an enable inserted OUTSIDE a reset inserter freezes that reset, as the property statement says (the example in "
               "docs/guide.rst lang-controlinserter shows the reset unaffected by the enable; the statement is authoritative)")


def replay(payload):
    spec = C03Spec(payload["cfg"])
    if payload.get("crash"):
        try:
            explore(spec, procs=1, replay_n=0, max_depth=4)
        except Exception as e:
            if not _raised_inside_amaranth(e):
                raise
            return [f"raised {type(e).__name__}: {e}"[:300]]
        return []
    idx = [spec.actions.index(tuple(a)) for a in payload["path"]]
    _key, errs = replay_path(spec, idx)
    return [f"action #{i} {spec.actions[i]}: {e}" for i, e in errs]
