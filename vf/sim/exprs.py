"""Batch evaluation of expression terms on the real simulator, against vf.ref.expr."""
import itertools
import warnings

from ..ref import expr as R
from ..gen.terms import build
from .driver import run_in_testbench, elaborate


def eval_batch(terms, *, read_path=True, circuit_path=True, max_viol=20):
    """All terms must agree on the shape of every leaf index. Every valuation of the leaves is applied.
    Returns dict(cov, violations). Each violation: (kind, term, env, got, want)."""
    from amaranth.hdl import Module, Signal, Cat, Shape, Const
    lv = {}
    for t in terms:
        for i, sh in R.leaves(t).items():
            assert lv.setdefault(i, sh) == sh
    idx = sorted(lv)
    sigs = {i: Signal(Shape(*lv[i]), name=f"l{i}") for i in idx}
    out = {"evaluations": 0, "terms": 0, "nontrivial": 0, "violations": [], "build_errors": 0}
    m = Module()
    built = []
    with warnings.catch_warnings():
        warnings.simplefilter("ignore")
        for t in terms:
            try:
                e = build(t, sigs)
            except Exception as ex:
                out["violations"].append(("build", t, None, type(ex).__name__ + ": " + str(ex)[:80], "accepted by the reference"))
                continue
            _, w, sg = R.ev(t, {i: 0 for i in idx})
            try:
                esh = e.shape()
                o = Signal(esh, name=f"o{len(built)}")
                m.d.comb += o.eq(e)
            except Exception as ex:
                out["violations"].append(("shape", t, None, "raises " + type(ex).__name__ + ": " + str(ex)[:80], (w, sg)))
                continue
            if R.shape_documented(t) and (esh.width, esh.signed) != (w, sg):
                out["violations"].append(("shape", t, None, (esh.width, esh.signed), (w, sg)))
            built.append((t, e, o))
    out["terms"] = len(built)
    if not built:
        return out
    # a leaf with no reader still has to exist in the design for ctx.set
    dummy = Signal(max(1, sum(lv[i][0] for i in idx)))
    m.d.comb += dummy.eq(Cat(*[sigs[i] for i in idx]))
    frag = elaborate(m)
    leaf_cat = Cat(*[sigs[i] for i in idx])
    widths = [lv[i][0] for i in idx]
    ranges = [R.values_of(*lv[i]) if lv[i][0] else [0] for i in idx]
    out_cat = Cat(*[o for _, _, o in built])
    out_sh = [(len(o), o.shape().signed) for _, _, o in built]

    expr_cat = Cat(*[e for _, e, _ in built])

    def body(ctx):
        varies = [set() for _ in built]
        for vals in itertools.product(*ranges):
            packed, off = 0, 0
            for v, w in zip(vals, widths):
                packed |= (v & ((1 << w) - 1)) << off
                off += w
            ctx.set(leaf_cat, packed)
            env = dict(zip(idx, vals))
            big = ctx.get(out_cat) if circuit_path else 0
            big2 = None
            if read_path:
                try:
                    big2 = ctx.get(expr_cat)        # one tree-walk for the whole batch
                except Exception:
                    big2 = None                     # some term crashes the evaluator: read one by one below
            off = 0
            for n, (t, e, o) in enumerate(built):
                w, sg = out_sh[n]
                want = R.ev(t, env)
                out["evaluations"] += 1
                varies[n].add(want[0])
                if not R.fits(want[0], w, sg) and len(out["violations"]) < max_viol:
                    out["violations"].append(("overflow", t, env, (w, sg), want[0]))
                wantv = R.from_bits(want[0], w, sg)
                if circuit_path:
                    got = R.from_bits(big >> off, w, sg)
                    if got != wantv and len(out["violations"]) < max_viol:
                        out["violations"].append(("circuit", t, env, got, wantv))
                if read_path:
                    if big2 is not None:
                        got2 = R.from_bits(big2 >> off, w, sg)
                    else:
                        try:
                            got2 = ctx.get(e)
                        except Exception as ex:
                            got2 = "raises " + type(ex).__name__
                    if got2 != wantv and len(out["violations"]) < max_viol:
                        out["violations"].append(("read", t, env, got2, wantv))
                off += w
        out["nontrivial"] = sum(1 for s in varies if len(s) > 1)
    try:
        run_in_testbench(frag, body)
    except Exception as ex:
        # the simulator could not even be built / run for this batch: bisect down to the offending term
        if len(terms) == 1:
            out["violations"].append(("sim-crash", terms[0], None, type(ex).__name__ + ": " + str(ex)[:80], "simulates"))
            return out
        half = len(terms) // 2
        a = eval_batch(terms[:half], read_path=read_path, circuit_path=circuit_path, max_viol=max_viol)
        b = eval_batch(terms[half:], read_path=read_path, circuit_path=circuit_path, max_viol=max_viol)
        for k in ("evaluations", "terms", "nontrivial", "build_errors"):
            a[k] += b[k]
        a["violations"] += b["violations"]
        return a
    return out
