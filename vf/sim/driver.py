"""Thin driver over the *public* simulator API (Simulator, add_testbench, ctx.get / ctx.set).

The explorer owns the clocks: nothing here calls add_clock; edges are produced with ctx.set(clk, level).
A whole exploration runs inside one testbench coroutine (ctx.get/ctx.set are synchronous there).
"""
import warnings

from amaranth.hdl import Fragment, Signal, Cat, Const
from amaranth.hdl._ir import Fragment as _Fragment
from amaranth.hdl._mem import MemoryInstance
from amaranth.sim import Simulator


def elaborate(design):
    """Elaborate once; the returned Fragment is what both the state walk and the Simulator use."""
    with warnings.catch_warnings():
        warnings.simplefilter("ignore")
        return Fragment.get(design, None)


def walk_state(frag):
    """Discover the state vector of an elaborated design: signals driven from a non-comb domain, sync
    read-port data signals, and memories. Returns (regs, mems); regs is a list of Signal (deduplicated,
    discovery order), mems a list of MemoryData."""
    regs, seen, mems, mseen = [], set(), [], set()

    def add(sig):
        if id(sig) not in seen and len(sig) > 0:
            seen.add(id(sig))
            regs.append(sig)

    def visit(f):
        if isinstance(f, MemoryInstance):
            if id(f._data) not in mseen:
                mseen.add(id(f._data))
                mems.append(f._data)
            for rp in f._read_ports:
                if rp._domain != "comb":
                    for s in rp._data._lhs_signals():
                        add(s)
        for domain, stmts in f.statements.items():
            if domain == "comb":
                continue
            for st in stmts:
                for s in st._lhs_signals():
                    add(s)
        for sub, _name, _loc in f.subfragments:
            visit(sub)
    visit(frag)
    return regs, mems


def run_in_testbench(frag, body, *, deadline=None):
    """Run body(ctx) -- plain synchronous code -- inside one testbench of a fresh Simulator."""
    out = {}
    sim = Simulator(frag)

    async def tb(ctx):
        out["r"] = body(ctx)
    sim.add_testbench(tb)
    with warnings.catch_warnings():
        warnings.simplefilter("ignore")
        sim.run()
    return out.get("r")


class System:
    """State access to a simulated design.

    regs: list of Signals forming the register state; mems: list of MemoryData; clocks: list of clock
    Signals (levels are part of the state only if `levels=True`); inputs: list of Signals the actions set.
    State = (packed regs int, tuple of memory rows, packed clock levels)."""
    def __init__(self, frag, clocks, inputs, extra_regs=(), levels=False, regs=None, mems=None):
        self.frag = frag
        r, m = walk_state(frag)
        self.regs = list(regs if regs is not None else r)
        for s in extra_regs:
            if all(s is not x for x in self.regs):
                self.regs.append(s)
        # a clock or input can never be a register of the state vector
        drop = {id(s) for s in list(clocks) + list(inputs)}
        self.regs = [s for s in self.regs if id(s) not in drop]
        self.mems = list(mems if mems is not None else m)
        self.clocks = list(clocks)
        self.inputs = [s for s in inputs]
        self.levels = levels
        self._reg_cat = Cat(*self.regs)
        self._reg_w = [len(s) for s in self.regs]
        self._clk_cat = Cat(*self.clocks)
        self._in_cat = Cat(*self.inputs)
        self._in_w = [len(s) for s in self.inputs]
        self.mem_rows = [(md, i) for md in self.mems for i in range(md.depth)]
        self.ctx = None

    # -- packing helpers
    def pack_inputs(self, vals):
        v, off = 0, 0
        for x, w in zip(vals, self._in_w):
            v |= (x & ((1 << w) - 1)) << off
            off += w
        return v

    def unpack_regs(self, packed):
        out, off = [], 0
        for s, w in zip(self.regs, self._reg_w):
            x = (packed >> off) & ((1 << w) - 1)
            out.append(x)
            off += w
        return out

    def reg_value(self, packed, sig):
        off = 0
        for s, w in zip(self.regs, self._reg_w):
            if s is sig:
                x = (packed >> off) & ((1 << w) - 1)
                if s.shape().signed and x >> (w - 1):
                    x -= 1 << w
                return x
            off += w
        raise KeyError(sig)

    # -- state access (inside a testbench)
    def read(self):
        ctx = self.ctx
        regs = ctx.get(self._reg_cat) if self.regs else 0
        rows = tuple(_raw(ctx.get(md[i]), md) for md, i in self.mem_rows)
        clk = ctx.get(self._clk_cat) if (self.levels and self.clocks) else 0
        return (regs, rows, clk)

    def load(self, state, cur=None):
        """Load a state. Clock levels are restored first *without* producing edges that matter: the caller
        must guarantee (pulse mode) that clocks are at their idle level, or (levels mode) we set registers
        after the clocks so that any edge-triggered update is overwritten."""
        ctx = self.ctx
        regs, rows, clk = state
        if self.levels and self.clocks:
            ctx.set(self._clk_cat, clk)
        if self.regs:
            ctx.set(self._reg_cat, regs)
        for k, ((md, i), v) in enumerate(zip(self.mem_rows, rows)):
            if cur is None or cur[1][k] != v:
                ctx.set(md[i], _unraw(v, md))

    def set_inputs(self, packed):
        if self.inputs:
            self.ctx.set(self._in_cat, packed)

    def set_clocks(self, packed):
        self.ctx.set(self._clk_cat, packed)

    def pulse(self, mask, idle=0):
        """rise+fall (or fall+rise for idle=all-ones) of the clocks selected by mask, simultaneously."""
        self.ctx.set(self._clk_cat, idle ^ mask)
        self.ctx.set(self._clk_cat, idle)


def _raw(v, md):
    """memory rows are compared as raw ints; aggregate rows come back as data.Const / enum members"""
    if isinstance(v, int):
        from amaranth.hdl import Shape
        w = Shape.cast(md.shape).width
        return v & ((1 << w) - 1) if w else 0
    from amaranth.hdl import Const
    try:
        c = Const.cast(v)
        return c.value & ((1 << len(c)) - 1)
    except Exception:
        return int(v)


def _unraw(v, md):
    from amaranth.hdl import Shape, ShapeCastable
    sh = md.shape
    if isinstance(sh, ShapeCastable):
        return sh.from_bits(v)
    s = Shape.cast(sh)
    if s.signed and s.width and v >> (s.width - 1):
        v -= 1 << s.width
    return v
